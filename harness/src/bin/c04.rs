//! C04 — nearest-neighbour search is exact (LinearKNNSearch, CoverTree, HeapSelection); the k-NN
//! classifier / regressor predict from an exact k-nearest set.
//!
//! Oracle = brute force over the library's own metric (cross-checked against the harness's closed
//! form). Every tie-break the statement leaves open is accepted: any k entries whose distance
//! multiset equals the k smallest distances; any valid k-nearest set for the estimators.
use scverif::refla::csum;
use scverif::*;
use smartcore::algorithm::neighbour::cover_tree::CoverTree;
use smartcore::algorithm::neighbour::linear_search::LinearKNNSearch;
use smartcore::algorithm::neighbour::KNNAlgorithmName;
use smartcore::error::Failed;
use smartcore::linalg::naive::dense_matrix::DenseMatrix;
use smartcore::math::distance::euclidian::Euclidian;
use smartcore::math::distance::{Distance, Distances};
use smartcore::math::num::RealNumber;
use smartcore::neighbors::knn_classifier::{KNNClassifier, KNNClassifierParameters};
use smartcore::neighbors::knn_regressor::{KNNRegressor, KNNRegressorParameters};
use smartcore::neighbors::KNNWeightFunction;
use smartcore::verif::HeapSelection;
use std::cmp::Ordering;
use std::sync::atomic::{AtomicUsize, Ordering as AtomicOrdering};
use std::sync::OnceLock;

// ------------------------------------------------------------------------------------ metrics
#[derive(Clone, Copy, PartialEq, Debug)]
enum Metric {
    Euclid,
    Manhattan,
    Mink(u16),
    Hamming,
}

impl Metric {
    fn name(self) -> String {
        match self {
            Metric::Euclid => "euclid".to_string(),
            Metric::Manhattan => "manhattan".to_string(),
            Metric::Mink(p) => format!("minkowski{}", p),
            Metric::Hamming => "hamming".to_string(),
        }
    }

    /// the harness's own closed form (f64) – only used to cross-check the number the library reports
    fn reference(self, a: &[f64], b: &[f64]) -> f64 {
        match self {
            Metric::Euclid => csum(a.iter().zip(b).map(|(x, y)| (x - y) * (x - y))).sqrt(),
            Metric::Manhattan => csum(a.iter().zip(b).map(|(x, y)| (x - y).abs())),
            Metric::Mink(p) => {
                let s = csum(a.iter().zip(b).map(|(x, y)| (x - y).abs().powi(p as i32)));
                match p {
                    1 => s,
                    2 => s.sqrt(),
                    3 => s.cbrt(),
                    _ => s.powf(1.0 / p as f64),
                }
            }
            Metric::Hamming => a.iter().zip(b).filter(|(x, y)| x != y).count() as f64 / a.len() as f64,
        }
    }

    /// true when the sum of p-th powers the metric forms is positive but below min_positive/eps of T
    fn power_sum_underflows<T: RealNumber>(self, a: &[f64], b: &[f64]) -> bool {
        let p = match self {
            Metric::Euclid => 2,
            Metric::Mink(p) => p as i32,
            _ => return false,
        };
        let s = csum(a.iter().zip(b).map(|(x, y)| (x - y).abs().powi(p)));
        s > 0.0 && s < f(T::min_positive_value()) / eps::<T>()
    }

    fn draw(rng: &mut Rng) -> Metric {
        let r = rng.f();
        if r < 0.35 {
            Metric::Euclid
        } else if r < 0.55 {
            Metric::Manhattan
        } else if r < 0.85 {
            Metric::Mink(rng.us(1, 4) as u16)
        } else {
            Metric::Hamming
        }
    }

    fn tag(self) -> f64 {
        match self {
            Metric::Euclid => 1.0,
            Metric::Manhattan => 2.0,
            Metric::Mink(p) => 10.0 + p as f64,
            Metric::Hamming => 3.0,
        }
    }
}

macro_rules! with_metric {
    ($m:expr, $d:ident => $body:expr) => {
        match $m {
            Metric::Euclid => {
                let $d = Distances::euclidian();
                $body
            }
            Metric::Manhattan => {
                let $d = Distances::manhattan();
                $body
            }
            Metric::Mink(p) => {
                let $d = Distances::minkowski(p);
                $body
            }
            Metric::Hamming => {
                let $d = Distances::hamming();
                $body
            }
        }
    };
}

// ------------------------------------------------------------------------------------ structures
#[derive(Clone, Copy, PartialEq, Debug)]
enum Algo {
    Linear,
    Cover,
}

impl Algo {
    fn name(self) -> &'static str {
        match self {
            Algo::Linear => "linear",
            Algo::Cover => "covertree",
        }
    }
    fn ctor(self) -> &'static str {
        match self {
            Algo::Linear => "LinearKNNSearch::new",
            Algo::Cover => "CoverTree::new",
        }
    }
    fn to_name(self) -> KNNAlgorithmName {
        match self {
            Algo::Linear => KNNAlgorithmName::LinearSearch,
            Algo::Cover => KNNAlgorithmName::CoverTree,
        }
    }
}

enum Knn<T: RealNumber, D: Distance<Vec<T>, T>> {
    L(LinearKNNSearch<Vec<T>, T, D>),
    C(CoverTree<Vec<T>, T, D>),
}

type Found<'a, T> = Vec<(usize, T, &'a Vec<T>)>;

impl<T: RealNumber, D: Distance<Vec<T>, T>> Knn<T, D> {
    fn find(&self, q: &Vec<T>, k: usize) -> Result<Found<'_, T>, Failed> {
        match self {
            Knn::L(s) => s.find(q, k),
            Knn::C(s) => s.find(q, k),
        }
    }
    fn find_radius(&self, q: &Vec<T>, r: T) -> Result<Found<'_, T>, Failed> {
        match self {
            Knn::L(s) => s.find_radius(q, r),
            Knn::C(s) => s.find_radius(q, r),
        }
    }
}

/// The two degenerate construction classes fail on every single case that contains them. The runner
/// stores at most 20 000 violation records per run; so that these records cannot crowd out other
/// classes in the thorough tier, each of the two signatures is reported for the first
/// `DEGENERATE_REPORT_CAP` occurrences of a run and only counted afterwards.
const DEGENERATE_REPORT_CAP: usize = 3000;
static DEGENERATE_N1: AtomicUsize = AtomicUsize::new(0);
static DEGENERATE_IDENTICAL: AtomicUsize = AtomicUsize::new(0);

fn throttled(sig: &str) -> bool {
    let counter = if sig == "covertree/n=1" {
        &DEGENERATE_N1
    } else if sig == "covertree/all-identical" {
        &DEGENERATE_IDENTICAL
    } else {
        return false;
    };
    counter.fetch_add(1, AtomicOrdering::Relaxed) >= DEGENERATE_REPORT_CAP
}

/// Like `Case::must`, but the known-finding signature is chosen by the caller (from the panic info).
fn must_sig<R>(c: &mut Case, what: &str, sig: impl FnOnce(&PanicInfo) -> String, f: impl FnOnce() -> R) -> Option<R> {
    let oracle = format!("no-panic:{}", what);
    c.count(&oracle);
    match guard(f) {
        Ok(v) => Some(v),
        Err(p) => {
            if p.in_harness() {
                c.inconclusive(&format!("harness panic in {}: {}", what, p.short()));
            } else if p.is_budget() {
                c.violate(&format!("termination:{}", what), "step-budget", p.short());
            } else {
                let s = sig(&p);
                if throttled(&s) {
                    c.count(&format!("{}:{}:not-re-reported-beyond-{}", oracle, s, DEGENERATE_REPORT_CAP));
                } else {
                    c.violate(&oracle, &s, p.short());
                }
            }
            None
        }
    }
}

fn cmp_rows(a: &Vec<f64>, b: &Vec<f64>) -> Ordering {
    for (x, y) in a.iter().zip(b.iter()) {
        match x.total_cmp(y) {
            Ordering::Equal => {}
            o => return o,
        }
    }
    a.len().cmp(&b.len())
}

/// "n=1" | "all-identical" | "duplicates" | "distinct"
fn data_class(rows: &[Vec<f64>]) -> &'static str {
    if rows.len() == 1 {
        return "n=1";
    }
    if rows.iter().all(|r| r == &rows[0]) {
        return "all-identical";
    }
    let mut s: Vec<&Vec<f64>> = rows.iter().collect();
    s.sort_by(|a, b| cmp_rows(a, b));
    if s.windows(2).any(|w| w[0] == w[1]) {
        "duplicates"
    } else {
        "distinct"
    }
}

/// signature of a construction panic: the two degenerate classes get the narrow keys
/// "covertree/n=1", "covertree/all-identical"; everything else carries metric, class and location
fn ctor_sig(algo: Algo, cls: &str, sg: &str, p: &PanicInfo) -> String {
    if cls == "n=1" || cls == "all-identical" {
        format!("{}/{}", algo.name(), cls)
    } else {
        format!("{}@{}", sg, p.loc())
    }
}

fn round_rows<T: RealNumber>(rows: Vec<Vec<f64>>) -> Vec<Vec<f64>> {
    rows.into_iter().map(|r| r.into_iter().map(|x| f(t::<T>(x))).collect()).collect()
}

fn sorted_f(v: &[f64]) -> Vec<f64> {
    let mut s = v.to_vec();
    s.sort_by(|a, b| a.total_cmp(b));
    s
}

/// every entry carries an in-range, not repeated index, the true distance and the true point
fn check_entries<T: RealNumber>(c: &mut Case, oracle: &str, sg: &str, v: &[(usize, T, &Vec<T>)], data: &[Vec<T>], d1: &[f64], d2: &[f64]) -> bool {
    let n = data.len();
    let mut seen = vec![false; n];
    let mut bad: Option<String> = None;
    for e in v {
        let idx = e.0;
        if idx >= n {
            bad = Some(format!("index {} out of range (n = {})", idx, n));
            break;
        }
        if seen[idx] {
            bad = Some(format!("index {} returned twice", idx));
            break;
        }
        seen[idx] = true;
        let df = f(e.1);
        if !(df == d1[idx] || df == d2[idx]) {
            bad = Some(format!("entry for index {} carries distance {:e}, the metric gives {:e}", idx, df, d1[idx]));
            break;
        }
        if *e.2 != data[idx] {
            bad = Some(format!("entry for index {} carries point {:?}, data[{}] = {:?}", idx, e.2, idx, data[idx]));
            break;
        }
    }
    c.check(oracle, bad.is_none(), sg, || bad.unwrap_or_default())
}

/// true when every distance involved is computed without any rounding (small integers under the
/// Manhattan / Minkowski-1 metric): a wrong answer can then not be an effect of rounding
fn exact_arithmetic(metric: Metric, rows: &[Vec<f64>], q: &[f64]) -> bool {
    let small_int = |x: &f64| x.fract() == 0.0 && x.abs() <= 1e9;
    matches!(metric, Metric::Manhattan | Metric::Mink(1)) && q.iter().all(small_int) && rows.iter().all(|r| r.iter().all(small_int))
}

/// Signature of a wrong answer. Answers that differ from the exact one only by points whose distance
/// is within a few ulps of the decision boundary (the radius / the k-th distance) are the visible
/// effect of floating-point rounding in a pruning bound (computed distances satisfy the triangle
/// inequality only up to rounding); they get one narrow key of their own per structure.
fn rounding_sig(algo: Algo, sg: &str, which: &str, at_boundary: bool) -> String {
    if at_boundary && algo == Algo::Cover {
        format!("{}/{}-differs-only-within-rounding-of-the-boundary", algo.name(), which)
    } else {
        sg.to_string()
    }
}

/// the full oracle for one `find(q,k)` answer; true when the answer is a valid k-nearest set
fn check_find<T: RealNumber>(c: &mut Case, algo: Algo, rounding_possible: bool, sg: &str, v: &[(usize, T, &Vec<T>)], data: &[Vec<T>], d1: &[f64], d2: &[f64], s1: &[f64], s2: &[f64], k: usize) -> bool {
    let len_ok = c.check("find.exactly-k", v.len() == k, sg, || format!("find(q, {}) returned {} entries (n = {})", k, v.len(), data.len()));
    let ent_ok = check_entries(c, "find.entries-true", sg, v, data, d1, d2);
    let rd = sorted_f(&v.iter().map(|e| f(e.1)).collect::<Vec<f64>>());
    let ks_ok = if len_ok {
        let ok = rd[..] == s1[..k] || rd[..] == s2[..k];
        let near = !ok && ent_ok && rounding_possible && (0..k).all(|j| (rd[j] - s1[j]).abs() <= 8.0 * eps::<T>() * s1[j]);
        let sig = rounding_sig(algo, sg, "find", near);
        c.check("find.k-smallest", ok, &sig, || format!("k = {}: returned distances {:?}, the k smallest are {:?}", k, rd, &s1[..k]))
    } else {
        false
    };
    len_ok && ent_ok && ks_ok
}

fn check_radius<T: RealNumber>(c: &mut Case, algo: Algo, rounding_possible: bool, sg: &str, v: &[(usize, T, &Vec<T>)], data: &[Vec<T>], d1: &[f64], d2: &[f64], r: f64) -> bool {
    let ent_ok = check_entries(c, "radius.entries-true", sg, v, data, d1, d2);
    let mut got: Vec<usize> = v.iter().map(|e| e.0).collect();
    got.sort_unstable();
    let e1: Vec<usize> = (0..data.len()).filter(|&i| d1[i] <= r).collect();
    let e2: Vec<usize> = (0..data.len()).filter(|&i| d2[i] <= r).collect();
    let ok = got == e1 || got == e2;
    let mut sig = sg.to_string();
    let mut note = String::new();
    if !ok {
        let missing: Vec<usize> = e1.iter().cloned().filter(|i| got.binary_search(i).is_err()).collect();
        let extra: Vec<usize> = got.iter().cloned().filter(|i| e1.binary_search(i).is_err()).collect();
        let at_boundary = ent_ok && rounding_possible && missing.iter().chain(extra.iter()).all(|&i| i < data.len() && (d1[i] - r).abs() <= 8.0 * eps::<T>() * r);
        sig = rounding_sig(algo, sg, "find_radius", at_boundary);
        note = format!("missing {:?} (distances {:?}), extra {:?}", missing, missing.iter().map(|&i| d1[i]).collect::<Vec<f64>>(), extra);
    }
    c.check("radius.set-exact", ok, &sig, || format!("r = {:e}: {}; returned indices {:?}, points with distance <= r are {:?}", r, note, got, e1));
    c.bucket_if(e1.is_empty(), "radius:empty-result");
    c.bucket_if(e1.len() == data.len(), "radius:all-points");
    ent_ok && ok
}

/// Builds one structure on `rows`, runs every query × k × radius through the brute-force oracle,
/// and the invalid arguments through the rejection oracle. Returns the number of answers compared.
fn run_structure<T: RealNumber, D: Distance<Vec<T>, T>>(c: &mut Case, rows: &[Vec<f64>], queries: &[Vec<f64>], metric: Metric, dist: D, algo: Algo, ks: &[usize], all_radii: bool, rounding_class: bool) -> usize {
    let n = rows.len();
    let cls = data_class(rows);
    let w = width::<T>();
    let sg = format!("{}/{}/{}{}", algo.name(), metric.name(), cls, if w == "f32" { "/f32" } else { "" });
    let data: Vec<Vec<T>> = rows.iter().map(|r| tv::<T>(r)).collect();
    let built = must_sig(c, algo.ctor(), |p| ctor_sig(algo, cls, &sg, p), || match algo {
        Algo::Linear => LinearKNNSearch::new(data.clone(), dist.clone()).map(Knn::L),
        Algo::Cover => CoverTree::new(data.clone(), dist.clone()).map(Knn::C),
    });
    let s: Knn<T, D> = match built {
        None => return 0,
        Some(Err(e)) => {
            c.check("new.ok", false, &sg, || format!("{} returned Err({}) for a non-empty point set", algo.ctor(), e));
            return 0;
        }
        Some(Ok(s)) => {
            c.check("new.ok", true, &sg, String::new);
            s
        }
    };
    c.bucket(&format!("algo:{}", algo.name()));
    c.bucket(&format!("class:{}", cls));
    let tol = 4096.0 * eps::<T>();
    let mut compared = 0usize;
    for (qi, qf) in queries.iter().enumerate() {
        let q: Vec<T> = tv::<T>(qf);
        let rp = rounding_class && !exact_arithmetic(metric, rows, qf);
        // brute force through the library metric (both argument orders: the scan calls d(q,x), the tree d(x,q))
        let d1: Vec<f64> = data.iter().map(|x| f(dist.distance(x, &q))).collect();
        let d2: Vec<f64> = data.iter().map(|x| f(dist.distance(&q, x))).collect();
        // cross-check of the reported numbers against the harness's closed form
        let mut worst = 0.0f64;
        for i in 0..n {
            let r = metric.reference(&rows[i], qf);
            if metric.power_sum_underflows::<T>(&rows[i], qf) {
                // Σ|x−y|^p falls into the subnormal range of T: the closed form is not comparable
                c.count("metric.value:skipped(underflow-range)");
                continue;
            }
            for d in [d1[i], d2[i]] {
                let rel = if !d.is_finite() || d < 0.0 {
                    f64::INFINITY
                } else if r == 0.0 {
                    if d == 0.0 {
                        0.0
                    } else {
                        f64::INFINITY
                    }
                } else {
                    (d - r).abs() / r
                };
                worst = worst.max(rel);
            }
        }
        c.ratio("metric.value", worst, tol, &sg, || format!("library distance differs from the closed form (relative), query {:?}", qf));
        let s1 = sorted_f(&d1);
        let s2 = sorted_f(&d2);
        c.bucket_if(s1[0] == 0.0, "query:coincides-with-a-data-point");
        c.bucket_if(n >= 2 && s1[1] == 0.0, "query:coincides-with-duplicated-points");
        for &k in ks {
            if k < 1 || k > n {
                continue;
            }
            let r = must_sig(c, &format!("{}.find", algo.name()), |p| format!("{}@{}", sg, p.loc()), || s.find(&q, k));
            match r {
                None => {}
                Some(Err(e)) => {
                    c.check("find.ok", false, &sg, || format!("find(q, {}) returned Err({}) with n = {}", k, e, n));
                }
                Some(Ok(v)) => {
                    c.check("find.ok", true, &sg, String::new);
                    check_find(c, algo, rp, &sg, &v, &data, &d1, &d2, &s1, &s2, k);
                    compared += 1;
                    c.bucket_if(k < n && s1[k - 1] == s1[k], "ties-at-the-kth-distance");
                    c.bucket_if(k == 1, "k=1");
                    c.bucket_if(k == n, "k=n");
                }
            }
        }
        // radii
        let mut pos: Vec<f64> = s1.iter().cloned().filter(|d| *d > 0.0).collect();
        pos.dedup();
        let dmax = s1[n - 1];
        let mut radii: Vec<(f64, &str)> = Vec::new();
        if all_radii {
            for p in &pos {
                radii.push((*p, "radius:equal-to-an-occurring-distance"));
            }
            if let Some(p) = pos.first() {
                radii.push((0.5 * p, "radius:below-smallest-positive-distance"));
            }
            radii.push((dmax + 1.0, "radius:beyond-all"));
        } else {
            if !pos.is_empty() {
                radii.push((*c.rng.pick(&pos), "radius:equal-to-an-occurring-distance"));
                if c.rng.bool(0.5) {
                    radii.push((0.5 * pos[0], "radius:below-smallest-positive-distance"));
                }
                radii.push((c.rng.uni(0.0, 1.2) * dmax, "radius:generic"));
            }
            if c.rng.bool(0.5) || pos.is_empty() {
                radii.push((2.0 * dmax + 1.0, "radius:beyond-all"));
            }
        }
        for (r0, bucket) in radii {
            let rt: T = t::<T>(r0);
            let rf = f(rt);
            if !(rf > 0.0) || !rf.is_finite() {
                continue;
            }
            let r = must_sig(c, &format!("{}.find_radius", algo.name()), |p| format!("{}@{}", sg, p.loc()), || s.find_radius(&q, rt));
            match r {
                None => {}
                Some(Err(e)) => {
                    c.check("radius.ok", false, &sg, || format!("find_radius(q, {:e}) returned Err({})", rf, e));
                }
                Some(Ok(v)) => {
                    c.check("radius.ok", true, &sg, String::new);
                    check_radius(c, algo, rp, &sg, &v, &data, &d1, &d2, rf);
                    compared += 1;
                    c.bucket(bucket);
                }
            }
        }
        // invalid arguments are reported as errors (first query only)
        if qi == 0 {
            let extra = c.rng.us(2, 50);
            for (kbad, what) in [(0usize, "k=0"), (n + 1, "k>n"), (n + extra, "k>n")] {
                let esg = format!("{}/{}", algo.name(), what);
                if let Some(r) = must_sig(c, &format!("{}.find(invalid k)", algo.name()), |_| esg.clone(), || s.find(&q, kbad).map(|v| v.len())) {
                    c.check("find.rejects-invalid-k", r.is_err(), &esg, || format!("find(q, {}) with n = {} returned Ok({:?} entries)", kbad, n, r.as_ref().ok()));
                }
            }
            let neg = -c.rng.logu(1e-6, 1e3);
            for (rbad, what) in [(0.0f64, "r=0"), (neg, "r<0")] {
                let esg = format!("{}/{}", algo.name(), what);
                if let Some(r) = must_sig(c, &format!("{}.find_radius(invalid r)", algo.name()), |_| esg.clone(), || s.find_radius(&q, t::<T>(rbad)).map(|v| v.len())) {
                    c.check("radius.rejects-nonpositive", r.is_err(), &esg, || format!("find_radius(q, {:e}) returned Ok({:?} entries)", rbad, r.as_ref().ok()));
                }
            }
        }
    }
    compared
}

// ------------------------------------------------------------------------------------ generators
fn draw_n(rng: &mut Rng, nmax: usize) -> usize {
    // the `large` family: thousands of points
    if scverif::big() > 0 {
        return rng.us(1025, 3000);
    }
    let r = rng.f();
    if r < 0.05 {
        rng.us(1, 8.min(nmax))
    } else if r < 0.40 {
        rng.us(2, 8.min(nmax))
    } else if r < 0.75 {
        rng.us(2, 30.min(nmax))
    } else {
        rng.us(2, nmax)
    }
}

fn cont_point(rng: &mut Rng, d: usize, scale: f64, offset: f64) -> Vec<f64> {
    (0..d).map(|_| offset + scale * rng.normal()).collect()
}

/// data set of 1..nmax points in 1..6 dimensions; returns (rows, generator kind)
fn draw_rows(rng: &mut Rng, nmax: usize) -> (Vec<Vec<f64>>, &'static str) {
    let d = rng.us(1, 6);
    let mut n = draw_n(rng, nmax);
    let scale = *rng.pick(&[1e-3, 1.0, 1.0, 1.0, 10.0, 1e3]);
    let offset = *rng.pick(&[0.0, 0.0, 5.0, -100.0]) * scale;
    let r = rng.f();
    let kind: &'static str = if r < 0.22 {
        "continuous"
    } else if r < 0.45 {
        "lattice"
    } else if r < 0.475 {
        "identical"
    } else if r < 0.595 {
        "collinear"
    } else if r < 0.61 {
        "single"
    } else if r < 0.72 {
        "duplicate-heavy"
    } else if r < 0.84 {
        "clustered"
    } else if r < 0.90 {
        "near-duplicate"
    } else if r < 0.93 {
        "resonant-with-base-1.3"
    } else if r < 0.95 {
        "one-decimal"
    } else {
        "binary"
    };
    let rows: Vec<Vec<f64>> = match kind {
        "continuous" => (0..n).map(|_| cont_point(rng, d, scale, offset)).collect(),
        "lattice" => {
            let l = rng.int(1, 4);
            let step = *rng.pick(&[1.0, 1.0, 0.5, 3.0, 0.1, 0.25]);
            (0..n).map(|_| (0..d).map(|_| rng.int(0, l) as f64 * step).collect()).collect()
        }
        "identical" => {
            let p: Vec<f64> = if rng.bool(0.5) { cont_point(rng, d, scale, offset) } else { (0..d).map(|_| rng.int(-2, 2) as f64).collect() };
            (0..n).map(|_| p.clone()).collect()
        }
        "collinear" => {
            let ints = rng.bool(0.5);
            let p0: Vec<f64> = if ints { (0..d).map(|_| rng.int(-3, 3) as f64).collect() } else { cont_point(rng, d, scale, offset) };
            let mut dir: Vec<f64> = if ints { (0..d).map(|_| rng.int(-2, 2) as f64).collect() } else { cont_point(rng, d, scale, 0.0) };
            if dir.iter().all(|x| *x == 0.0) {
                dir[0] = 1.0;
            }
            let tint = rng.bool(0.5);
            (0..n)
                .map(|_| {
                    let tt = if tint { rng.int(-6, 6) as f64 } else { rng.uni(-3.0, 3.0) };
                    (0..d).map(|j| p0[j] + tt * dir[j]).collect()
                })
                .collect()
        }
        "single" => {
            n = 1;
            vec![if rng.bool(0.5) { cont_point(rng, d, scale, offset) } else { (0..d).map(|_| rng.int(0, 2) as f64).collect() }]
        }
        "duplicate-heavy" => {
            let m = if n >= 2 { rng.us(2, (n / 2).max(2)) } else { 1 };
            let base: Vec<Vec<f64>> = (0..m).map(|_| cont_point(rng, d, scale, offset)).collect();
            (0..n).map(|_| base[rng.below(m)].clone()).collect()
        }
        "clustered" => {
            let nc = rng.us(2, 4);
            let centres: Vec<Vec<f64>> = (0..nc).map(|_| cont_point(rng, d, 100.0 * scale, offset)).collect();
            let tight = *rng.pick(&[1e-3, 1e-1, 1e-6]) * scale;
            (0..n)
                .map(|_| {
                    let ce = &centres[rng.below(nc)];
                    (0..d).map(|j| ce[j] + tight * rng.normal()).collect()
                })
                .collect()
        }
        "near-duplicate" => {
            let m = rng.us(1, 3);
            let base: Vec<Vec<f64>> = (0..m).map(|_| cont_point(rng, d, scale, offset)).collect();
            (0..n)
                .map(|_| {
                    let b = &base[rng.below(m)];
                    let e = *rng.pick(&[0.0, 1e-12, 1e-9, 1e-6, 1e-3]) * scale;
                    (0..d).map(|j| b[j] + e * rng.normal()).collect()
                })
                .collect()
        }
        // distances from the first row that sit on, or a few ulps beside, an integer power of 1.3 (the ratio between
        // the levels of the cover tree): points exactly on the edge of a level
        "resonant-with-base-1.3" => {
            let p0: Vec<f64> = if rng.bool(0.5) { vec![0.0; d] } else { (0..d).map(|_| rng.int(-20, 20) as f64 / 10.0).collect() };
            let s0 = rng.int(-12, 20);
            let mut rows = vec![p0.clone()];
            for _ in 1..n {
                let s = s0 - rng.int(0, 5);
                let r = 1.3f64.powi(s as i32) * (1.0 + rng.int(-3, 6) as f64 * f64::EPSILON);
                let j = rng.below(d);
                let mut q = p0.clone();
                q[j] += if rng.bool(0.5) { r } else { -r };
                rows.push(q);
            }
            rows
        }
        // coordinates with one decimal digit: differences such as 3.6 - 2.3 = 1.3000000000000003
        "one-decimal" => (0..n).map(|_| (0..d).map(|_| rng.int(-60, 60) as f64 / 10.0).collect()).collect(),
        _ => (0..n).map(|_| (0..d).map(|_| rng.int(0, 1) as f64).collect()).collect(),
    };
    debug_assert_eq!(rows.len(), n);
    (rows, kind)
}

/// in-sample, midpoint (ties), jittered, in-box (lattice-rounded when the data are integers) and far queries
fn draw_queries(rng: &mut Rng, rows: &[Vec<f64>], nq: usize) -> Vec<(Vec<f64>, &'static str)> {
    let n = rows.len();
    let d = rows[0].len();
    let lo: Vec<f64> = (0..d).map(|j| rows.iter().fold(f64::INFINITY, |m, r| m.min(r[j]))).collect();
    let hi: Vec<f64> = (0..d).map(|j| rows.iter().fold(f64::NEG_INFINITY, |m, r| m.max(r[j]))).collect();
    let mut extent = (0..d).map(|j| hi[j] - lo[j]).fold(0.0f64, f64::max);
    if !(extent > 0.0) {
        extent = lo.iter().fold(0.0f64, |m, x| m.max(x.abs())).max(1.0);
    }
    let integer = rows.iter().all(|r| r.iter().all(|x| x.fract() == 0.0));
    (0..nq)
        .map(|_| {
            let r = rng.f();
            if r < 0.30 {
                (rows[rng.below(n)].clone(), "query:in-sample")
            } else if r < 0.45 {
                let (a, b) = (&rows[rng.below(n)], &rows[rng.below(n)]);
                ((0..d).map(|j| 0.5 * (a[j] + b[j])).collect(), "query:midpoint")
            } else if r < 0.65 {
                let a = &rows[rng.below(n)];
                let e = *rng.pick(&[1e-9, 1e-3, 0.3]) * extent;
                ((0..d).map(|j| a[j] + e * rng.normal()).collect(), "query:jittered")
            } else if r < 0.85 {
                let round = integer && rng.bool(0.7);
                (
                    (0..d)
                        .map(|j| {
                            let x = rng.uni(lo[j] - 0.2 * extent, hi[j] + 0.2 * extent);
                            if round {
                                x.round()
                            } else {
                                x
                            }
                        })
                        .collect(),
                    "query:in-box",
                )
            } else {
                let far = rng.uni(10.0, 100.0) * extent;
                ((0..d).map(|j| 0.5 * (lo[j] + hi[j]) + far * if rng.bool(0.5) { 1.0 } else { -1.0 }).collect(), "query:far")
            }
        })
        .collect()
}

fn draw_ks(rng: &mut Rng, n: usize) -> Vec<usize> {
    if n <= 12 {
        (1..=n).collect()
    } else {
        let mut ks = vec![1, 2, n - 1, n];
        for _ in 0..4 {
            ks.push(rng.us(1, n));
        }
        ks.sort_unstable();
        ks.dedup();
        ks
    }
}

fn rows_json(rows: &[Vec<f64>]) -> Value {
    let cells: usize = rows.iter().map(|r| r.len()).sum();
    if cells <= 150 {
        json!(rows)
    } else {
        json!({"first_rows": &rows[..6.min(rows.len())], "note": "large set: re-materialise with --replay (seed, family, index)"})
    }
}

fn hash_rows(c: &mut Case, rows: &[Vec<f64>]) {
    for r in rows {
        c.hash_f64s(r);
    }
    c.hash_f64s(&[rows.len() as f64]);
}

// ------------------------------------------------------------------------------------ family: search
fn search_t<T: RealNumber>(c: &mut Case) {
    let (mut rows0, mut kind) = draw_rows(&mut c.rng, 200);
    if width::<T>() == "f32" && kind == "near-duplicate" {
        // separations of 1e-12..1e-9 underflow in the f32 power sums (outside the metric assumption)
        let (n, d) = (rows0.len(), rows0[0].len());
        rows0 = (0..n).map(|_| cont_point(&mut c.rng, d, 1.0, 0.0)).collect();
        kind = "continuous";
    }
    let rows = round_rows::<T>(rows0);
    let metric = Metric::draw(&mut c.rng);
    let nq = c.rng.us(1, 4);
    let qs = draw_queries(&mut c.rng, &rows, nq);
    let queries: Vec<Vec<f64>> = round_rows::<T>(qs.iter().map(|q| q.0.clone()).collect());
    let n = rows.len();
    let ks = draw_ks(&mut c.rng, n);
    c.describe(json!({"width": width::<T>(), "metric": metric.name(), "generator": kind, "n": n, "dims": rows[0].len(),
        "rows": rows_json(&rows), "queries": queries, "ks": ks}));
    hash_rows(c, &rows);
    hash_rows(c, &queries);
    c.hash_f64s(&[metric.tag(), if width::<T>() == "f32" { 1.0 } else { 2.0 }]);
    c.bucket(&format!("generator:{}", kind));
    c.bucket(&format!("metric:{}", metric.name()));
    c.bucket(&format!("width:{}", width::<T>()));
    c.bucket(&format!("dims:{}", rows[0].len()));
    c.bucket(if n == 1 {
        "n:1"
    } else if n <= 8 {
        "n:2-8"
    } else if n <= 30 {
        "n:9-30"
    } else {
        "n:31-200"
    });
    for q in &qs {
        c.bucket(q.1);
    }
    let mut compared = 0;
    for algo in [Algo::Linear, Algo::Cover] {
        compared += with_metric!(metric, d => run_structure::<T, _>(c, &rows, &queries, metric, d, algo, &ks, false, true));
    }
    if n >= 2 && compared > 0 {
        c.nontrivial();
    }
}

fn search(c: &mut Case) {
    if c.rng.bool(0.25) {
        search_t::<f32>(c)
    } else {
        search_t::<f64>(c)
    }
}

// ------------------------------------------------------------------------------------ family: lattice3x3 (exhaustive)
/// all multisets of 1..=6 points of the 3×3 lattice (points numbered 0..9), as non-decreasing sequences
fn multisets() -> &'static Vec<Vec<u8>> {
    static TABLE: OnceLock<Vec<Vec<u8>>> = OnceLock::new();
    TABLE.get_or_init(|| {
        fn rec(m: usize, from: u8, cur: &mut Vec<u8>, out: &mut Vec<Vec<u8>>) {
            if cur.len() == m {
                out.push(cur.clone());
                return;
            }
            for p in from..9 {
                cur.push(p);
                rec(m, p, cur, out);
                cur.pop();
            }
        }
        let mut out = Vec::new();
        for m in 1..=6 {
            rec(m, 0, &mut Vec::new(), &mut out);
        }
        out
    })
}

const LATTICE_MULTISETS: u64 = 5004; // Σ_{m=1..6} C(8+m, m)

fn lattice_point(p: u8) -> Vec<f64> {
    vec![(p / 3) as f64, (p % 3) as f64]
}

fn lattice3x3(c: &mut Case) {
    let table = multisets();
    if table.len() as u64 != LATTICE_MULTISETS || c.index >= LATTICE_MULTISETS {
        c.inconclusive("enumeration table does not match the registered case count");
        return;
    }
    let ms = &table[c.index as usize];
    let m = ms.len();
    // the multiset in canonical order and in one seeded permutation (the tree depends on the order)
    let perm = c.rng.perm(m);
    let order2: Vec<u8> = perm.iter().map(|&i| ms[i]).collect();
    let mut orders: Vec<Vec<u8>> = vec![ms.clone()];
    if order2 != *ms {
        orders.push(order2);
    }
    c.describe(json!({"multiset": ms, "orders": orders, "queries": "all 9 lattice points", "k": "1..=n", "metrics": ["euclid", "manhattan"]}));
    c.set_hash(c.index.wrapping_mul(0x9E3779B97F4A7C15) ^ 0x3333);
    let queries: Vec<Vec<f64>> = (0..9u8).map(lattice_point).collect();
    let ks: Vec<usize> = (1..=m).collect();
    let mut compared = 0;
    for ord in &orders {
        let rows: Vec<Vec<f64>> = ord.iter().map(|&p| lattice_point(p)).collect();
        for metric in [Metric::Euclid, Metric::Manhattan] {
            for algo in [Algo::Linear, Algo::Cover] {
                compared += with_metric!(metric, d => run_structure::<f64, _>(c, &rows, &queries, metric, d, algo, &ks, true, false));
            }
        }
    }
    c.bucket(&format!("multiset-size:{}", m));
    if m >= 2 && compared > 0 {
        c.nontrivial();
    }
}

// ------------------------------------------------------------------------------------ family: heap
#[derive(Debug, Clone)]
struct Item {
    v: f64,
    id: usize,
}
impl PartialEq for Item {
    fn eq(&self, o: &Item) -> bool {
        self.v == o.v
    }
}
impl PartialOrd for Item {
    fn partial_cmp(&self, o: &Item) -> Option<Ordering> {
        self.v.partial_cmp(&o.v)
    }
}

/// model: the k smallest of everything offered so far; `peek` = the largest element kept
fn model_peek(offered: &[f64], k: usize) -> f64 {
    let s = sorted_f(offered);
    if s.len() < k {
        s[s.len() - 1]
    } else {
        s[k - 1]
    }
}

fn heap(c: &mut Case) {
    let k = if c.rng.bool(0.2) { 1 } else { c.rng.us(1, 12) };
    let len = c.rng.us(0, 60);
    let vkind = *c.rng.pick(&["few-values", "continuous", "ascending", "descending", "all-equal"]);
    let mut xs: Vec<f64> = (0..len)
        .map(|_| match vkind {
            "few-values" => c.rng.int(0, 5) as f64,
            "all-equal" => 2.0,
            _ => c.rng.normal(),
        })
        .collect();
    if vkind == "ascending" {
        xs.sort_by(|a, b| a.total_cmp(b));
    } else if vkind == "descending" {
        xs.sort_by(|a, b| b.total_cmp(a));
    }
    // usage patterns of the two search structures: "add" (cover tree: optional MAX sentinel, then
    // add + peek), "replace-top" (linear scan: k infinite sentinels, then peek_mut / heapify), "mixed"
    let mode = *c.rng.pick(&["add", "replace-top", "mixed"]);
    let sentinel = mode != "add" || c.rng.bool(0.5);
    c.describe(json!({"k": k, "mode": mode, "sentinel": sentinel, "values": xs}));
    c.bucket(&format!("heap:mode:{}", mode));
    c.bucket(&format!("heap:values:{}", vkind));
    c.bucket(if k == 1 { "heap:k=1" } else if k <= 3 { "heap:k=2-3" } else { "heap:k>3" });
    let sg = format!("heap/{}", mode);
    let mut h: HeapSelection<Item> = HeapSelection::with_capacity(k);
    let mut offered: Vec<f64> = Vec::new();
    // sentinels
    if mode == "add" {
        if sentinel {
            offered.push(f64::MAX);
            let it = Item { v: f64::MAX, id: 0 };
            if must_sig(c, "HeapSelection::add", |p| format!("{}@{}", sg, p.loc()), || h.add(it)).is_none() {
                return;
            }
        }
    } else {
        for _ in 0..k {
            let it = Item { v: f64::INFINITY, id: offered.len() };
            offered.push(f64::INFINITY);
            if must_sig(c, "HeapSelection::add", |p| format!("{}@{}", sg, p.loc()), || h.add(it)).is_none() {
                return;
            }
        }
    }
    for &x in &xs {
        let id = offered.len();
        offered.push(x);
        let by_add = match mode {
            "add" => true,
            "replace-top" => false,
            _ => c.rng.bool(0.5),
        };
        let it = Item { v: x, id };
        let r = if by_add {
            must_sig(c, "HeapSelection::add", |p| format!("{}@{}", sg, p.loc()), || h.add(it))
        } else {
            must_sig(c, "HeapSelection::peek_mut+heapify", |p| format!("{}@{}", sg, p.loc()), || {
                let top = h.peek_mut();
                if it.v < top.v {
                    *top = it;
                    h.heapify();
                }
            })
        };
        if r.is_none() {
            return;
        }
        let exp = model_peek(&offered, k);
        if let Some(got) = must_sig(c, "HeapSelection::peek", |p| format!("{}@{}", sg, p.loc()), || h.peek().v) {
            if !c.check("heap.peek=largest-kept", got == exp, &sg, || format!("after offering {:?} with k = {}: peek() = {:e}, the largest of the k smallest is {:e}", offered, k, got, exp)) {
                return;
            }
        } else {
            return;
        }
        if offered.len() >= k {
            // the scan relies on heap[0] (peek_mut) being the largest element kept once the heap is full
            if let Some(got) = must_sig(c, "HeapSelection::peek_mut", |p| format!("{}@{}", sg, p.loc()), || h.peek_mut().v) {
                if !c.check("heap.peek_mut=largest-kept", got == exp, &sg, || format!("after offering {:?} with k = {}: *peek_mut() = {:e}, expected {:e}", offered, k, got, exp)) {
                    return;
                }
            } else {
                return;
            }
        }
    }
    let kept = match must_sig(c, "HeapSelection::get", |p| format!("{}@{}", sg, p.loc()), || h.get()) {
        Some(v) => v,
        None => return,
    };
    let want = sorted_f(&offered);
    let want = &want[..k.min(offered.len())];
    let got = sorted_f(&kept.iter().map(|i| i.v).collect::<Vec<f64>>());
    c.check("heap.keeps-k-smallest", got[..] == want[..], &sg, || format!("offered {:?}, k = {}: kept {:?}, expected {:?}", offered, k, got, want));
    let mut seen = vec![false; offered.len()];
    let mut payload_ok = true;
    for it in &kept {
        if it.id >= offered.len() || seen[it.id] || offered[it.id].to_bits() != it.v.to_bits() {
            payload_ok = false;
            break;
        }
        seen[it.id] = true;
    }
    c.check("heap.elements-intact", payload_ok, &sg, || format!("kept elements {:?} are not distinct offered elements", kept));
    if offered.len() > k {
        c.nontrivial();
    }
    let s = sorted_f(&offered);
    c.bucket_if(s.len() > k && s[k - 1] == s[k], "heap:tie-at-the-kth");
}

// ------------------------------------------------------------------------------------ estimators
#[derive(Clone, Copy, PartialEq, Debug)]
enum Weight {
    Uniform,
    Distance,
}

impl Weight {
    fn name(self) -> &'static str {
        match self {
            Weight::Uniform => "uniform",
            Weight::Distance => "distance",
        }
    }
    fn lib(self) -> KNNWeightFunction {
        match self {
            Weight::Uniform => KNNWeightFunction::Uniform,
            Weight::Distance => KNNWeightFunction::Distance,
        }
    }
    /// weight of a neighbour at distance d; `has_zero`: the query coincides with a training point
    /// (then every k-nearest set contains one, and exact matches take all the weight)
    fn w(self, d: f64, has_zero: bool) -> f64 {
        match self {
            Weight::Uniform => 1.0,
            Weight::Distance => {
                if has_zero {
                    if d == 0.0 {
                        1.0
                    } else {
                        0.0
                    }
                } else {
                    1.0 / d
                }
            }
        }
    }
}

struct EstInput {
    rows: Vec<Vec<f64>>,
    y: Vec<f64>,
    queries: Vec<Vec<f64>>,
    metric: Metric,
    algo: Algo,
    weight: Weight,
    k: usize,
    /// None = valid k; Some("k=0" | "k>n")
    invalid: Option<&'static str>,
    cls: &'static str,
}

impl EstInput {
    fn sig(&self, what: &str) -> String {
        format!("{}/{}/{}/{}/{}", what, self.algo.name(), self.metric.name(), self.weight.name(), self.cls)
    }
}

/// tie structure of one query: indices strictly closer than the k-th distance, indices at it
struct Ties {
    d: Vec<f64>,
    dk: f64,
    fixed: Vec<usize>,
    tied: Vec<usize>,
    need: usize,
    has_zero: bool,
}

fn ties_of(d: Vec<f64>, k: usize) -> Ties {
    let s = sorted_f(&d);
    let dk = s[k - 1];
    let fixed: Vec<usize> = (0..d.len()).filter(|&i| d[i] < dk).collect();
    let tied: Vec<usize> = (0..d.len()).filter(|&i| d[i] == dk).collect();
    let need = k - fixed.len();
    let has_zero = s[0] == 0.0;
    Ties { d, dk, fixed, tied, need, has_zero }
}

fn binom_capped(n: usize, r: usize, cap: u64) -> u64 {
    let r = r.min(n - r);
    let mut b: u64 = 1;
    for i in 0..r {
        b = b * (n - i) as u64 / (i + 1) as u64;
        if b > cap {
            return cap + 1;
        }
    }
    b
}

fn next_comb(comb: &mut [usize], n: usize) -> bool {
    let r = comb.len();
    let mut i = r;
    while i > 0 {
        i -= 1;
        if comb[i] < n - r + i {
            comb[i] += 1;
            for j in i + 1..r {
                comb[j] = comb[j - 1] + 1;
            }
            return true;
        }
    }
    false
}

/// the harness's own structure over the same rows in the same order: the neighbour set the
/// estimator sees (if that structure answers with a valid k-nearest set)
fn own_neighbours<D: Distance<Vec<f64>, f64>>(c: &mut Case, inp: &EstInput, dist: &D, q: &Vec<f64>, d1: &[f64]) -> Option<Vec<usize>> {
    let data = inp.rows.clone();
    let sg = format!("{}/{}/{}", inp.algo.name(), inp.metric.name(), inp.cls);
    let built = guard(|| match inp.algo {
        Algo::Linear => LinearKNNSearch::new(data.clone(), dist.clone()).map(Knn::L),
        Algo::Cover => CoverTree::new(data.clone(), dist.clone()).map(Knn::C),
    });
    let s: Knn<f64, D> = match built {
        Ok(Ok(s)) => s,
        _ => return None, // reported through the estimator's own fit
    };
    let r = must_sig(c, &format!("{}.find", inp.algo.name()), |p| format!("{}@{}", sg, p.loc()), || s.find(q, inp.k));
    match r {
        Some(Ok(v)) => {
            let s1 = sorted_f(d1);
            if check_find(c, inp.algo, !exact_arithmetic(inp.metric, &inp.rows, q), &sg, &v, &inp.rows, d1, d1, &s1, &s1, inp.k) {
                Some(v.iter().map(|e| e.0).collect())
            } else {
                None
            }
        }
        _ => None,
    }
}

fn est_describe(c: &mut Case, what: &str, inp: &EstInput, kind: &str) {
    c.describe(json!({"estimator": what, "algorithm": inp.algo.name(), "metric": inp.metric.name(), "weight": inp.weight.name(), "k": inp.k,
        "invalid": inp.invalid, "generator": kind, "n": inp.rows.len(), "rows": rows_json(&inp.rows),
        "y": if inp.y.len() <= 60 { json!(inp.y) } else { json!({"first": &inp.y[..10]}) }, "queries": inp.queries}));
    hash_rows(c, &inp.rows);
    hash_rows(c, &inp.queries);
    c.hash_f64s(&inp.y);
    c.hash_f64s(&[inp.metric.tag(), inp.k as f64, if inp.algo == Algo::Cover { 1.0 } else { 2.0 }, if inp.weight == Weight::Uniform { 1.0 } else { 2.0 }, scverif::rng::hash_str(what) as f64]);
    c.bucket(&format!("algo:{}", inp.algo.name()));
    c.bucket(&format!("metric:{}", inp.metric.name()));
    c.bucket(&format!("weight:{}", inp.weight.name()));
    c.bucket(&format!("class:{}", inp.cls));
    c.bucket(&format!("generator:{}", kind));
}

/// draws everything but the targets
fn draw_est(c: &mut Case, classifier: bool) -> (EstInput, &'static str) {
    let (rows, kind) = draw_rows(&mut c.rng, 200);
    let n = rows.len();
    let metric = Metric::draw(&mut c.rng);
    let algo = if c.rng.bool(0.5) { Algo::Cover } else { Algo::Linear };
    let weight = if c.rng.bool(0.5) { Weight::Uniform } else { Weight::Distance };
    let kmin = if classifier { 2 } else { 1 };
    let mut invalid: Option<&'static str> = None;
    let r = c.rng.f();
    let k = if n < kmin || r < 0.12 {
        if n >= kmin && c.rng.bool(0.4) {
            invalid = Some("k=0");
            0
        } else {
            invalid = Some("k>n");
            (n + c.rng.us(1, 4)).max(kmin)
        }
    } else if r < 0.32 {
        kmin
    } else if r < 0.47 {
        n
    } else if r < 0.8 {
        c.rng.us(kmin, n.min(10).max(kmin))
    } else {
        c.rng.us(kmin, n)
    };
    let nq = c.rng.us(1, 6);
    let mut queries: Vec<Vec<f64>> = draw_queries(&mut c.rng, &rows, nq).into_iter().map(|q| q.0).collect();
    // at least one in-sample row (exact match: the zero-distance weighting rule)
    queries.push(rows[c.rng.below(n)].clone());
    let cls = data_class(&rows);
    (EstInput { rows, y: Vec::new(), queries, metric, algo, weight, k, invalid, cls }, kind)
}

fn est_panic_sig(inp: &EstInput, what: &str, p: &PanicInfo) -> String {
    if inp.algo == Algo::Cover && (inp.cls == "n=1" || inp.cls == "all-identical") {
        format!("covertree/{}", inp.cls)
    } else {
        format!("{}@{}", inp.sig(what), p.loc())
    }
}

/// an invalid k (0 or > n) must be reported as an error by `fit` or, at the latest, by `predict`
fn reject_check(c: &mut Case, inp: &EstInput, what: &str, fit_err: bool, predict_err: Option<bool>) {
    let inv = inp.invalid.unwrap_or("");
    let esg = format!("{}/{}/{}", what, inp.algo.name(), inv);
    let rejected = fit_err || predict_err == Some(true);
    c.check("knn.rejects-invalid-k", rejected, &esg, || format!("k = {} with n = {} was accepted by both fit and predict", inp.k, inp.rows.len()));
    c.nontrivial();
    c.bucket(&format!("invalid:{}", inv));
}

fn reg_run<D: Distance<Vec<f64>, f64> + serde::Serialize + serde::de::DeserializeOwned>(c: &mut Case, inp: &EstInput, dist: D) {
    let idx = c.index;
    let what = "regressor";
    let x = DenseMatrix::from_2d_vec(&inp.rows);
    let xq = DenseMatrix::from_2d_vec(&inp.queries);
    // the builder steps are applied in a drawn order: the configured value of every setting must survive
    // whichever step comes last (with_distance rebuilds the parameter struct)
    let params = match c.rng.below(4) {
        0 => KNNRegressorParameters::<f64, Euclidian>::default().with_distance(dist.clone()).with_k(inp.k).with_algorithm(inp.algo.to_name()).with_weight(inp.weight.lib()),
        1 => KNNRegressorParameters::<f64, Euclidian>::default().with_weight(inp.weight.lib()).with_k(inp.k).with_algorithm(inp.algo.to_name()).with_distance(dist.clone()),
        2 => KNNRegressorParameters::<f64, Euclidian>::default().with_k(inp.k).with_distance(dist.clone()).with_weight(inp.weight.lib()).with_algorithm(inp.algo.to_name()),
        _ => KNNRegressorParameters::<f64, Euclidian>::default().with_algorithm(inp.algo.to_name()).with_weight(inp.weight.lib()).with_distance(dist.clone()).with_k(inp.k),
    };
    c.bucket("builder-order-varied");
    let fit = match must_sig(c, "KNNRegressor::fit", |p| est_panic_sig(inp, what, p), || KNNRegressor::fit(&x, &inp.y, scverif::reused(idx, params))) {
        Some(r) => r,
        None => return,
    };
    if inp.invalid.is_some() {
        match fit {
            Err(_) => reject_check(c, inp, what, true, None),
            Ok(m) => {
                if let Some(r) = must_sig(c, "KNNRegressor::predict", |p| est_panic_sig(inp, what, p), || m.predict(&xq)) {
                    reject_check(c, inp, what, false, Some(r.is_err()));
                }
            }
        }
        return;
    }
    let sg = inp.sig(what);
    let model = match fit {
        Ok(m) => m,
        Err(e) => {
            c.check("knn.fit.ok", false, &sg, || format!("KNNRegressor::fit returned Err({}) for k = {}, n = {}", e, inp.k, inp.rows.len()));
            return;
        }
    };
    c.check("knn.fit.ok", true, &sg, String::new);
    let pred: Vec<f64> = match must_sig(c, "KNNRegressor::predict", |p| est_panic_sig(inp, what, p), || model.predict(&xq)) {
        Some(Ok(p)) => p,
        Some(Err(e)) => {
            c.check("knn.predict.ok", false, &sg, || format!("predict returned Err({}) for k = {}, n = {}", e, inp.k, inp.rows.len()));
            return;
        }
        None => return,
    };
    if !c.check("knn.predict.ok", pred.len() == inp.queries.len(), &sg, || format!("{} predictions for {} query rows", pred.len(), inp.queries.len())) {
        return;
    }
    sequence_checks(c, &format!("knn.{}", what), &sg, &model, &xq, &pred, |m, q| m.predict(q));
    for (qi, q) in inp.queries.iter().enumerate() {
        let d1: Vec<f64> = inp.rows.iter().map(|r| dist.distance(r, q)).collect();
        let ti = ties_of(d1, inp.k);
        let wt = inp.weight.w(ti.dk, ti.has_zero);
        let wf: Vec<f64> = ti.fixed.iter().map(|&i| inp.weight.w(ti.d[i], ti.has_zero)).collect();
        let sum_wf = csum(wf.iter().cloned());
        let sum_wyf = csum(ti.fixed.iter().zip(&wf).map(|(&i, w)| w * inp.y[i]));
        let den = sum_wf + wt * ti.need as f64;
        let ymax = ti.fixed.iter().chain(ti.tied.iter()).fold(0.0f64, |m, &i| m.max(inp.y[i].abs()));
        let tol = 1e-12 * ymax + f64::MIN_POSITIVE;
        let value = |chosen_sum_y: f64| (sum_wyf + wt * chosen_sum_y) / den;
        let p = pred[qi];
        c.bucket_if(ti.has_zero, "query:coincides-with-a-data-point");
        c.bucket_if(ti.tied.len() > ti.need, "ties-at-the-kth-distance");
        let mut best = f64::INFINITY;
        // (A) the set the harness's own structure returns for the same rows
        if let Some(idx) = own_neighbours(c, inp, &dist, q, &ti.d) {
            let ws: Vec<f64> = idx.iter().map(|&i| inp.weight.w(ti.d[i], ti.has_zero)).collect();
            let e = csum(idx.iter().zip(&ws).map(|(&i, w)| w * inp.y[i])) / csum(ws.iter().cloned());
            best = (p - e).abs();
            if !(best <= tol) {
                c.bucket("estimator-set-differs-from-standalone-structure");
            }
        }
        // (B) any valid k-nearest set: all strictly closer points + `need` of the tied ones
        if !(best <= tol) {
            let ty: Vec<f64> = ti.tied.iter().map(|&i| inp.y[i]).collect();
            let sy = sorted_f(&ty);
            if wt == 0.0 || sy[0] == sy[sy.len() - 1] || ti.need == ti.tied.len() {
                // the choice does not matter
                let e = value(csum(sy[..ti.need].iter().cloned()));
                best = best.min((p - e).abs());
            } else if binom_capped(ti.tied.len(), ti.need, 5000) <= 5000 {
                let mut comb: Vec<usize> = (0..ti.need).collect();
                loop {
                    let e = value(csum(comb.iter().map(|&j| ty[j])));
                    best = best.min((p - e).abs());
                    if best <= tol || !next_comb(&mut comb, ty.len()) {
                        break;
                    }
                }
            } else {
                // too many tied subsets to enumerate: only the attainable interval is decidable
                let lo = value(csum(sy[..ti.need].iter().cloned()));
                let hi = value(csum(sy[sy.len() - ti.need..].iter().cloned()));
                let out = (lo - p).max(p - hi).max(0.0);
                c.ratio("knn.regressor.within-tie-interval", out, tol, &sg, || format!("query {:?}: prediction {:e} outside the interval [{:e}, {:e}] attainable from k-nearest sets", q, p, lo, hi));
                c.count("knn.regressor.undecidable(too-many-tied-subsets)");
                c.bucket("regressor:too-many-tied-subsets");
                continue;
            }
        }
        c.ratio("knn.regressor.weighted-mean", best, tol, &sg, || {
            format!("query {:?} (k = {}, {} weights): prediction {:e} is not the weighted mean over any k-nearest set ({} closer + {} of {} tied at {:e})", q, inp.k, inp.weight.name(), p, ti.fixed.len(), ti.need, ti.tied.len(), ti.dk)
        });
        c.nontrivial();
    }
    c.bucket_if(inp.k == 1, "regressor:k=1");
    c.bucket_if(inp.k == inp.rows.len(), "k=n");
}

fn knn_regressor(c: &mut Case) {
    let (mut inp, kind) = draw_est(c, false);
    let n = inp.rows.len();
    let ykind = *c.rng.pick(&["continuous", "integer", "constant", "first-coordinate", "large-offset"]);
    inp.y = (0..n)
        .map(|i| match ykind {
            "continuous" => c.rng.normal(),
            "integer" => c.rng.int(-3, 3) as f64,
            "constant" => 2.5,
            "first-coordinate" => inp.rows[i][0],
            _ => 1e6 + c.rng.normal(),
        })
        .collect();
    est_describe(c, "regressor", &inp, kind);
    c.bucket(&format!("y:{}", ykind));
    with_metric!(inp.metric, d => reg_run(c, &inp, d));
}

fn cls_run<D: Distance<Vec<f64>, f64> + serde::Serialize + serde::de::DeserializeOwned>(c: &mut Case, inp: &EstInput, dist: D) {
    let idx = c.index;
    let what = "classifier";
    let x = DenseMatrix::from_2d_vec(&inp.rows);
    let xq = DenseMatrix::from_2d_vec(&inp.queries);
    // the builder steps are applied in a drawn order: the configured value of every setting must survive
    // whichever step comes last (with_distance rebuilds the parameter struct)
    let params = match c.rng.below(4) {
        0 => KNNClassifierParameters::<f64, Euclidian>::default().with_distance(dist.clone()).with_k(inp.k).with_algorithm(inp.algo.to_name()).with_weight(inp.weight.lib()),
        1 => KNNClassifierParameters::<f64, Euclidian>::default().with_weight(inp.weight.lib()).with_k(inp.k).with_algorithm(inp.algo.to_name()).with_distance(dist.clone()),
        2 => KNNClassifierParameters::<f64, Euclidian>::default().with_k(inp.k).with_distance(dist.clone()).with_weight(inp.weight.lib()).with_algorithm(inp.algo.to_name()),
        _ => KNNClassifierParameters::<f64, Euclidian>::default().with_algorithm(inp.algo.to_name()).with_weight(inp.weight.lib()).with_distance(dist.clone()).with_k(inp.k),
    };
    c.bucket("builder-order-varied");
    let fit = match must_sig(c, "KNNClassifier::fit", |p| est_panic_sig(inp, what, p), || KNNClassifier::fit(&x, &inp.y, scverif::reused(idx, params))) {
        Some(r) => r,
        None => return,
    };
    if inp.invalid.is_some() {
        match fit {
            Err(_) => reject_check(c, inp, what, true, None),
            Ok(m) => {
                if let Some(r) = must_sig(c, "KNNClassifier::predict", |p| est_panic_sig(inp, what, p), || m.predict(&xq)) {
                    reject_check(c, inp, what, false, Some(r.is_err()));
                }
            }
        }
        return;
    }
    let sg = inp.sig(what);
    let model = match fit {
        Ok(m) => m,
        Err(e) => {
            c.check("knn.fit.ok", false, &sg, || format!("KNNClassifier::fit returned Err({}) for k = {}, n = {}", e, inp.k, inp.rows.len()));
            return;
        }
    };
    c.check("knn.fit.ok", true, &sg, String::new);
    let pred: Vec<f64> = match must_sig(c, "KNNClassifier::predict", |p| est_panic_sig(inp, what, p), || model.predict(&xq)) {
        Some(Ok(p)) => p,
        Some(Err(e)) => {
            c.check("knn.predict.ok", false, &sg, || format!("predict returned Err({}) for k = {}, n = {}", e, inp.k, inp.rows.len()));
            return;
        }
        None => return,
    };
    if !c.check("knn.predict.ok", pred.len() == inp.queries.len(), &sg, || format!("{} predictions for {} query rows", pred.len(), inp.queries.len())) {
        return;
    }
    sequence_checks(c, &format!("knn.{}", what), &sg, &model, &xq, &pred, |m, q| m.predict(q));
    let mut labels = sorted_f(&inp.y);
    labels.dedup();
    let class_of = |v: f64| labels.iter().position(|l| *l == v);
    let nc = labels.len();
    for (qi, q) in inp.queries.iter().enumerate() {
        let p = pred[qi];
        let pc = match class_of(p) {
            Some(pc) => {
                c.check("knn.classifier.label-original", true, &sg, String::new);
                pc
            }
            None => {
                c.check("knn.classifier.label-original", false, &sg, || format!("prediction {:e} is not one of the training labels {:?}", p, labels));
                continue;
            }
        };
        let d1: Vec<f64> = inp.rows.iter().map(|r| dist.distance(r, q)).collect();
        let ti = ties_of(d1, inp.k);
        let wt = inp.weight.w(ti.dk, ti.has_zero);
        c.bucket_if(ti.has_zero, "query:coincides-with-a-data-point");
        c.bucket_if(ti.tied.len() > ti.need, "ties-at-the-kth-distance");
        // votes of the points every k-nearest set contains
        let mut fv_: Vec<Vec<f64>> = vec![Vec::new(); nc];
        for &i in &ti.fixed {
            fv_[class_of(inp.y[i]).unwrap_or(0)].push(inp.weight.w(ti.d[i], ti.has_zero));
        }
        let fixed_votes: Vec<f64> = fv_.iter().map(|v| csum(v.iter().cloned())).collect();
        let total = csum(fixed_votes.iter().cloned()) + wt * ti.need as f64;
        let tol = 1e-12 * total;
        let mut ok = false;
        // (A) the set the harness's own structure returns for the same rows
        if let Some(idx) = own_neighbours(c, inp, &dist, q, &ti.d) {
            let mut v: Vec<Vec<f64>> = vec![Vec::new(); nc];
            for &i in &idx {
                v[class_of(inp.y[i]).unwrap_or(0)].push(inp.weight.w(ti.d[i], ti.has_zero));
            }
            let votes: Vec<f64> = v.iter().map(|x| csum(x.iter().cloned())).collect();
            let best = votes.iter().cloned().fold(0.0f64, f64::max);
            ok = votes[pc] >= best - tol;
            if !ok {
                c.bucket("estimator-set-differs-from-standalone-structure");
            }
        }
        // (B) any valid k-nearest set: give the predicted class as many tied points as possible and
        // spread the rest so that the largest competing vote is as small as possible (water filling)
        let mut detail = String::new();
        if !ok {
            let mut cap: Vec<usize> = vec![0; nc];
            for &i in &ti.tied {
                cap[class_of(inp.y[i]).unwrap_or(0)] += 1;
            }
            let mut votes = fixed_votes.clone();
            let mp = cap[pc].min(ti.need);
            votes[pc] += wt * mp as f64;
            cap[pc] = 0;
            let mut rem = ti.need - mp;
            while rem > 0 {
                let mut bi: Option<usize> = None;
                for cl in 0..nc {
                    if cl != pc && cap[cl] > 0 && (bi.is_none() || votes[cl] < votes[bi.unwrap_or(0)]) {
                        bi = Some(cl);
                    }
                }
                match bi {
                    Some(cl) => {
                        votes[cl] += wt;
                        cap[cl] -= 1;
                        rem -= 1;
                    }
                    None => break,
                }
            }
            let best_other = (0..nc).filter(|&cl| cl != pc).map(|cl| votes[cl]).fold(0.0f64, f64::max);
            ok = rem == 0 && votes[pc] >= best_other - tol;
            detail = format!("most favourable k-nearest set gives the predicted class {:e} a vote of {:e} against {:e}", p, votes[pc], best_other);
        }
        c.check("knn.classifier.plurality", ok, &sg, || {
            format!("query {:?} (k = {}, {} weights): {}; {} closer + {} of {} tied at {:e}, labels {:?}", q, inp.k, inp.weight.name(), detail, ti.fixed.len(), ti.need, ti.tied.len(), ti.dk, labels)
        });
        c.nontrivial();
    }
    c.bucket(&format!("classes:{}", nc));
    c.bucket_if(inp.k == 2, "classifier:k=2");
    c.bucket_if(inp.k == inp.rows.len(), "k=n");
}

fn knn_classifier(c: &mut Case) {
    let (mut inp, kind) = draw_est(c, true);
    let n = inp.rows.len();
    let pool = [-3.5, -1.0, 0.0, 1.0, 2.0, 2.5, 7.0, 10.0];
    let nc = if c.rng.bool(0.1) { 1 } else { c.rng.us(2, 4) };
    let mut perm = c.rng.perm(pool.len());
    perm.truncate(nc);
    // label values: the fixed pool, or (nc >= 2) a set chosen to defeat shortcuts in the class bookkeeping
    let values: Vec<f64> = if nc >= 2 && c.rng.bool(0.2) {
        let (v, name) = scverif::gen::tricky_labels(&mut c.rng, nc);
        c.bucket(&format!("labels:{}", name));
        v
    } else {
        perm.iter().map(|q| pool[*q]).collect()
    };
    let ykind = *c.rng.pick(&["random", "random", "by-first-coordinate", "imbalanced"]);
    let med = {
        let s = sorted_f(&inp.rows.iter().map(|r| r[0]).collect::<Vec<f64>>());
        s[n / 2]
    };
    inp.y = (0..n)
        .map(|i| {
            let cl = match ykind {
                "random" => c.rng.below(nc),
                "by-first-coordinate" => {
                    if inp.rows[i][0] < med {
                        0
                    } else {
                        nc - 1
                    }
                }
                _ => {
                    if c.rng.bool(0.8) {
                        0
                    } else {
                        c.rng.below(nc)
                    }
                }
            };
            values[cl]
        })
        .collect();
    est_describe(c, "classifier", &inp, kind);
    c.bucket(&format!("y:{}", ykind));
    with_metric!(inp.metric, d => cls_run(c, &inp, d));
}

/// the uniform api traits (Predictor / SupervisedEstimator / UnsupervisedEstimator / Transformer) behave
/// exactly like the inherent methods
fn api_paths_fam(c: &mut Case) {
    scverif::apipaths::case(c, "C04")
}

/// searches and both estimators over 1025..3000 points (beyond the ordinary bound of 200)
fn large(c: &mut Case) {
    let g = c.index % 3;
    scverif::with_big(1, || match g {
        0 => search(c),
        1 => knn_regressor(c),
        _ => knn_classifier(c),
    })
}

fn main() {
    runner::main(Spec {
        property: "C04",
        rule: "families: search (seeded data sets of 1..200 points in 1..6 dims – continuous, lattice, all-identical, collinear, single point, duplicate-heavy, clustered, near-duplicate, binary; f64 and f32; Euclidean / Manhattan / Minkowski p=1..4 / Hamming; 1..4 queries in-sample, midpoint, jittered, in-box, far; all k for n<=12 else 1,2,n-1,n + 4 random; radii equal to an occurring distance, generic, below the smallest positive distance, beyond all; both structures), lattice3x3 (EXHAUSTIVE: every multiset of 1..6 points of the 3x3 lattice in canonical order plus one seeded permutation x all 9 lattice queries x all k x all occurring radii x both structures x Euclidean and Manhattan), heap (HeapSelection driven in the two usage patterns of the structures and mixed, against the model 'k smallest offered, peek = largest kept'), knn_regressor / knn_classifier (fit + predict through the public API, both algorithms, both weight functions, all four metrics, k = 1 / 2 / n edge cases, invalid k); a case is non-trivial when n >= 2 and at least one find / find_radius answer was compared with the brute-force oracle (search, lattice3x3), when more than k elements were offered (heap), when at least one prediction was compared or an invalid k was judged (estimators); distinct = hash of the materialised input; large: searches and both estimators over 1025..3000 points; parameter objects are passed to fit as clones in every second case",
        assumptions: vec![
            "the brute-force oracle evaluates the library's own metric on the same pairs (exact comparison); the harness's closed form cross-checks the reported numbers to 4096 eps (relative)",
            "distances are finite and free of overflow/underflow for the generated magnitudes (|coordinates| <= ~1e6)",
            "estimator oracles accept every valid k-nearest set (all points closer than the k-th distance + any choice among those exactly at it); vote ties within 1e-12 of the total weight and means within 1e-12 max|y| are accepted",
            "a wrong cover-tree answer that differs from the exact one only by points within 8 eps of the decision boundary (radius / k-th distance) is keyed as '<structure>/find[_radius]-differs-only-within-rounding-of-the-boundary' (rounding in the pruning bound); never for lattice3x3 nor for integer data under Manhattan / Minkowski-1, where all arithmetic is exact",
            "classifier k = 1 is not exercised (the statement names k = 2 as the classifier's smallest k)",
            "lattice3x3 enumerates multisets completely; the insertion order (which the cover tree depends on) is the canonical order plus one seeded permutation",
            "construction panics of the two degenerate classes (covertree/n=1, covertree/all-identical) are reported for their first 3000 occurrences per run and only counted afterwards (the runner keeps at most 20000 violation records)",
        ],
        families: vec![
            Family::new("api_paths", 300, 3000, api_paths_fam),
            Family::new("search", 12000, 500000, search),
            Family::new("lattice3x3", LATTICE_MULTISETS, LATTICE_MULTISETS, lattice3x3).exhaustive(true, true),
            Family::new("heap", 6000, 200000, heap),
            Family::new("knn_regressor", 4000, 150000, knn_regressor),
            Family::new("knn_classifier", 4000, 150000, knn_classifier),
            Family::new("large", 200, 1500, large),
        ],
        min_nontrivial: 4000,
        case_timeout_s: 120,
    });
}
