//! C12 — K-means: centroids are the means of the rows last assigned to them, sizes are the counts of
//! those assignments, predict picks a nearest centroid; the bounding-box filtering tree used inside
//! fitting agrees with exhaustive nearest-centroid assignment (membership, sums, counts, distortion).
//!
//! State of a fitted model (k, size, centroids, _y) is read through `serde_json::to_value(&model)`;
//! the tree's assignment step is driven through `smartcore::verif::bbd_clustering`.
//!
//! Private sub-command (not a tier): `c12 --probe-build <file.json>` builds the tree on the data set
//! in the file and exits 0. The monitor spawns it as a child process *only* when its own replica of
//! the tree's splitting rule predicts a split that puts all rows on one side (the library would then
//! recurse without bound and overflow the stack, which no `catch_unwind` can intercept and which
//! would take the whole monitor down). The verdict is what the child actually did, never the prediction.
use scverif::gen::{draw_scale, scale_class};
use scverif::refla::*;
use scverif::*;
use smartcore::cluster::kmeans::{KMeans, KMeansParameters};
use smartcore::linalg::naive::dense_matrix::DenseMatrix;
use smartcore::math::num::RealNumber;
use smartcore::verif::bbd_clustering;
use std::sync::atomic::{AtomicU64, Ordering};

/// float widths the monitor instantiates (serde view needs `Serialize`)
trait W: SNum + std::iter::Sum {}
impl W for f32 {}
impl W for f64 {}

const FITS_PER_DATASET: usize = 10; // "schedules": the seeding RNG is an unseeded thread-local
const CALLS_PER_DATASET: usize = 10; // centroid sets per data set in the assignment families

// ------------------------------------------------------------------------------------ tolerances
/// relative tolerance for "nearest": 4500·ε (= 1e-12 in f64), applied to d·(2·S + |c_a|∞ + |c_min|∞)²
fn tau_near<T: RealNumber>() -> f64 {
    4500.0 * eps::<T>()
}

/// relative tolerance for means / sums / distortion: 1e-9 (f64); for f32 64·(n+2)·ε
fn tau_sum<T: RealNumber>(n: usize) -> f64 {
    (64.0 * (n as f64 + 2.0) * eps::<T>()).max(1e-9)
}

// ------------------------------------------------------------------------------------ small helpers
fn linf(v: &[f64]) -> f64 {
    v.iter().fold(0.0f64, |m, x| m.max(x.abs()))
}

fn d2(a: &[f64], b: &[f64]) -> f64 {
    csum(a.iter().zip(b.iter()).map(|(x, y)| (x - y) * (x - y)))
}

fn round_t<T: RealNumber>(x: f64) -> f64 {
    f(t::<T>(x))
}

/// largest finite value of T
fn max_t<T: RealNumber>() -> f64 {
    f(T::max_value())
}

/// true when sums of n·d squared differences of magnitude m stay 1000× below the overflow threshold of T
fn squares_representable<T: RealNumber>(n: usize, d: usize, m: f64) -> bool {
    let b = (n * d) as f64 * (2.0 * m) * (2.0 * m);
    b.is_finite() && b < 1e-3 * max_t::<T>()
}

fn n_class(n: usize) -> &'static str {
    if n <= 12 {
        "n:2-12"
    } else if n <= 60 {
        "n:13-60"
    } else {
        "n:61-300"
    }
}

fn draw_n(rng: &mut Rng) -> usize {
    // the `large` family: thousands of rows
    if scverif::big() > 0 {
        return rng.us(1025, 4000);
    }
    let r = rng.f();
    if r < 0.4 {
        rng.us(2, 12)
    } else if r < 0.8 {
        rng.us(2, 60)
    } else {
        rng.us(2, 300)
    }
}

// ------------------------------------------------------------------------------------ data sets
const KINDS: [&str; 7] = ["continuous", "lattice", "clustered", "duplicates", "collinear", "near-duplicates", "geometric"];

/// moves a (rounded-to-T) value by m units in the last place of T
fn bump<T: RealNumber>(v: f64, m: i64) -> f64 {
    if v == 0.0 || !v.is_finite() {
        return v;
    }
    let r = if width::<T>() == "f32" { f32::from_bits(((v as f32).to_bits() as i64 + m) as u32) as f64 } else { f64::from_bits((v.to_bits() as i64 + m) as u64) };
    if r.is_finite() && r != 0.0 {
        r
    } else {
        v
    }
}

/// overwrites a random part of the rows (never the first two) with copies of other rows whose
/// coordinates are moved by 1..3 ulps of T or by a relative 1e-13..1e-6 (rounded to T)
fn near_duplicate_rows<T: RealNumber>(rng: &mut Rng, x: &mut Mat) {
    let (n, d) = (x.r, x.c);
    let p = rng.uni(0.1, 0.6);
    let ulps = rng.bool(0.6);
    for i in 2..n {
        if !rng.bool(p) {
            continue;
        }
        let src = rng.below(i);
        for j in 0..d {
            let v = x.at(src, j);
            let nv = if !rng.bool(0.6) {
                v
            } else if ulps {
                let m = *rng.pick(&[-3i64, -2, -1, 1, 1, 2, 3]);
                bump::<T>(v, m)
            } else {
                let r = rng.logu(1e-13, 1e-6) * if rng.bool(0.5) { 1.0 } else { -1.0 };
                round_t::<T>(v * (1.0 + r))
            };
            x.set(i, j, nv);
        }
    }
}

/// n×d data set of the given kind (f64, not yet rounded). Every kind contains at least
/// min(n, 2) distinct rows by construction and usually many more; k is drawn afterwards from
/// 2..=min(8, number of distinct rows of the rounded data), so "at least k distinct rows" is generated.
fn gen_rows(rng: &mut Rng, kind: &str, n: usize, d: usize) -> Mat {
    match kind {
        "multiplicities" => {
            // three groups on a line -- a light point, a light pair and a heavy pair, half-integer positions,
            // multiplicities 1..4 -- reflected / shifted / rescaled by a power of two. With k = 3 the stale
            // k-means++ partition regularly produces a centroid between the groups that loses every member in the
            // first Lloyd step (measured: about 0.15 % of the fits), i.e. a memberless cluster with a centroid
            // different from all others.
            let w = *rng.pick(&[0.5, 1.0, 1.5]);
            let g1 = rng.int(5, 9) as f64 * 0.5;
            let g2 = rng.int(7, 12) as f64 * 0.5;
            let mut vals: Vec<f64> = Vec::new();
            for _ in 0..rng.us(1, 3) {
                vals.push(0.0);
            }
            for _ in 0..rng.us(1, 2) {
                vals.push(g1);
            }
            for _ in 0..rng.us(1, 2) {
                vals.push(g1 + w);
            }
            for _ in 0..rng.us(2, 4) {
                vals.push(g1 + w + g2);
            }
            for _ in 0..rng.us(2, 4) {
                vals.push(g1 + w + g2 + w);
            }
            let sgn = if rng.bool(0.5) { 1.0 } else { -1.0 };
            let sc = 2f64.powi(rng.int(-3, 3) as i32);
            let sh = rng.int(-10, 10) as f64 * 0.5;
            let d = if rng.bool(0.8) { 1 } else { d.min(2) };
            let other = rng.int(-4, 4) as f64;
            let mut rows: Vec<Vec<f64>> = vals.iter().map(|v| (0..d).map(|j| if j == 0 { sgn * sc * (v + sh) } else { other }).collect()).collect();
            let _ = n;
            rng.shuffle(&mut rows);
            Mat::from_rows(&rows)
        }
        "lattice" => {
            // integer lattice {0..L-1}^d times a dyadic/integer step: exact ties and duplicates
            let lmin = match d {
                1 => 8,
                2 => 3,
                _ => 2,
            };
            let l = lmin + rng.below(4);
            let step = *rng.pick(&[1.0, 1.0, 0.5, 0.25, 2.0, 3.0]);
            let origin: Vec<f64> = (0..d).map(|_| rng.int(-3, 3) as f64 * step).collect();
            let cells = (l as u64).pow(d as u32) as usize;
            let m = n.min(cells).min(rng.us(2, 14));
            // m distinct cells
            let mut chosen: Vec<usize> = Vec::new();
            if cells <= 4096 {
                let p = rng.perm(cells);
                chosen.extend_from_slice(&p[..m]);
            } else {
                while chosen.len() < m {
                    let v = rng.below(cells);
                    if !chosen.contains(&v) {
                        chosen.push(v);
                    }
                }
            }
            let dup_p = rng.f();
            let mut ids: Vec<usize> = chosen.clone();
            while ids.len() < n {
                if rng.bool(dup_p) {
                    let v = chosen[rng.below(m)];
                    ids.push(v);
                } else {
                    ids.push(rng.below(cells));
                }
            }
            rng.shuffle(&mut ids);
            Mat::from_fn(n, d, |i, j| {
                let digit = (ids[i] / l.pow(j as u32)) % l;
                origin[j] + digit as f64 * step
            })
        }
        "clustered" => {
            let g = rng.us(1, 10);
            let centres = Mat::from_fn(g, d, |_, _| rng.uni(-10.0, 10.0));
            let sigma: Vec<f64> = (0..g).map(|_| rng.logu(1e-3, 1.0)).collect();
            let w: Vec<f64> = (0..g).map(|_| rng.logu(0.1, 1.0)).collect();
            let wt: f64 = w.iter().sum();
            let outliers = rng.bool(0.2);
            Mat::from_rows(
                &(0..n)
                    .map(|_| {
                        let mut u = rng.f() * wt;
                        let mut gi = 0;
                        while gi + 1 < g && u > w[gi] {
                            u -= w[gi];
                            gi += 1;
                        }
                        let far = outliers && rng.bool(0.03);
                        (0..d).map(|j| centres.at(gi, j) + sigma[gi] * rng.normal() + if far { 50.0 * rng.normal() } else { 0.0 }).collect::<Vec<f64>>()
                    })
                    .collect::<Vec<_>>(),
            )
        }
        "far-offset" => {
            // unit-scale blobs far from the origin (offset 1e2..1e8 spreads per column): squared distances
            // must be formed from coordinate differences, not from expanded norms
            let g = rng.us(2, 6);
            let centres = Mat::from_fn(g, d, |_, _| rng.uni(-8.0, 8.0));
            let off: Vec<f64> = (0..d).map(|_| rng.logu(1e2, 1e8) * if rng.bool(0.5) { 1.0 } else { -1.0 }).collect();
            Mat::from_rows(&(0..n).map(|_| { let gi = rng.below(g); (0..d).map(|j| off[j] + centres.at(gi, j) + 0.3 * rng.normal()).collect::<Vec<f64>>() }).collect::<Vec<_>>())
        }
        "duplicates" => {
            // m distinct continuous points, every one present, the rest exact copies
            let m = rng.us(2, 10).min(n);
            let pts = Mat::from_fn(m, d, |_, _| rng.uni(-4.0, 4.0));
            let mut ids: Vec<usize> = (0..m).collect();
            while ids.len() < n {
                ids.push(rng.below(m));
            }
            rng.shuffle(&mut ids);
            Mat::from_fn(n, d, |i, j| pts.at(ids[i], j))
        }
        "geometric" => {
            // rows a + q^i·b, i = 0..n-1 (shuffled): every midpoint split of the bounding box peels off a constant
            // number of rows, so a space-partitioning tree over them is as deep as the data set is long
            let q: f64 = *rng.pick(&[0.5, 1.0 / 3.0, 2.0 / 3.0, 0.7, 0.9]);
            let a: Vec<f64> = (0..d).map(|_| if rng.bool(0.5) { 0.0 } else { rng.int(-4, 4) as f64 * 0.5 }).collect();
            let mut b: Vec<f64> = (0..d).map(|_| if rng.bool(0.3) { 0.0 } else { rng.uni(-2.0, 2.0) }).collect();
            let j0 = rng.below(d);
            if b[j0] == 0.0 {
                b[j0] = 1.0;
            }
            // q^i >= 1e-60 (squared distances stay far inside the f64 range; in f32 the tail collapses onto `a`,
            // which only adds duplicate rows)
            let imax = ((-60.0f64 * std::f64::consts::LN_10) / q.ln()).floor() as usize;
            let mut ids: Vec<usize> = (0..n).map(|i| i % (imax + 1)).collect();
            rng.shuffle(&mut ids);
            Mat::from_fn(n, d, |i, j| a[j] + q.powi(ids[i] as i32) * b[j])
        }
        "collinear" => {
            // rows on a line a + t·b (equispaced integer t: many exact ties; or continuous t); some
            // coordinates of b are zero (constant columns: zero box radius in that dimension)
            let a: Vec<f64> = (0..d).map(|_| rng.int(-4, 4) as f64 * 0.5).collect();
            let mut b: Vec<f64> = (0..d).map(|_| if rng.bool(0.3) { 0.0 } else { rng.int(-3, 3) as f64 * 0.5 }).collect();
            let j0 = rng.below(d);
            if b[j0] == 0.0 {
                b[j0] = 1.0;
            }
            let integer_t = rng.bool(0.6);
            let span = rng.us(2.max(n.min(9)), 2 * n + 8) as i64;
            let ts: Vec<f64> = (0..n)
                .map(|i| {
                    if integer_t {
                        if i < 2 {
                            i as f64 // two distinct rows for sure
                        } else {
                            rng.int(0, span) as f64
                        }
                    } else {
                        rng.uni(-3.0, 3.0)
                    }
                })
                .collect();
            let mut order: Vec<usize> = (0..n).collect();
            rng.shuffle(&mut order);
            Mat::from_fn(n, d, |i, j| a[j] + ts[order[i]] * b[j])
        }
        _ => {
            // continuous: uniform or normal, per-column scale and offset, optionally constant columns
            let normal = rng.bool(0.5);
            let sc: Vec<f64> = (0..d).map(|_| if rng.bool(0.5) { 1.0 } else { rng.logu(0.05, 20.0) }).collect();
            let off: Vec<f64> = (0..d).map(|j| if rng.bool(0.5) { 0.0 } else { rng.uni(-10.0, 10.0) * sc[j] }).collect();
            let mut constant: Vec<bool> = (0..d).map(|_| d >= 2 && rng.bool(0.1)).collect();
            let keep = rng.below(d);
            constant[keep] = false;
            Mat::from_fn(n, d, |_, j| {
                if constant[j] {
                    off[j]
                } else if normal {
                    off[j] + sc[j] * rng.normal()
                } else {
                    off[j] + sc[j] * rng.uni(-1.0, 1.0)
                }
            })
        }
    }
}

struct Data {
    x: Mat, // already rounded to T
    kind: String,
    scale: f64,
    /// number of distinct rows (of the rounded data)
    distinct: usize,
    /// max |x_ij|
    s: f64,
    /// smallest Chebyshev distance between two distinct rows
    mingap: f64,
    lo: Vec<f64>,
    hi: Vec<f64>,
}

fn analyse(x: Mat, kind: &str, scale: f64) -> Data {
    let (n, d) = (x.r, x.c);
    let mut keys: Vec<Vec<u64>> = (0..n).map(|i| (0..d).map(|j| (x.at(i, j) + 0.0).to_bits()).collect()).collect();
    keys.sort();
    keys.dedup();
    let mut mingap = f64::INFINITY;
    for i in 0..n {
        for i2 in 0..i {
            let mut g = 0.0f64;
            for j in 0..d {
                g = g.max((x.at(i, j) - x.at(i2, j)).abs());
            }
            if g > 0.0 && g < mingap {
                mingap = g;
            }
        }
    }
    let lo: Vec<f64> = (0..d).map(|j| (0..n).map(|i| x.at(i, j)).fold(f64::INFINITY, f64::min)).collect();
    let hi: Vec<f64> = (0..d).map(|j| (0..n).map(|i| x.at(i, j)).fold(f64::NEG_INFINITY, f64::max)).collect();
    let s = x.max_abs();
    Data { x, kind: kind.to_string(), scale, distinct: keys.len(), s, mingap, lo, hi }
}

fn draw_data<T: RealNumber>(c: &mut Case, kind: &str, scaled: bool) -> Data {
    // "tiny-capped": 5..10 rows in 1..2 dimensions, fitted many times with k = 3..4 and an iteration limit of 1..2
    // (clusters that run empty in the last assignment pass)
    let tiny = kind == "tiny-capped";
    let n = if tiny { c.rng.us(5, 10) } else { draw_n(&mut c.rng) };
    let d = if tiny { c.rng.us(1, 2) } else { c.rng.us(1, 6) };
    let kind = if kind == "any" { *c.rng.pick(&KINDS) } else { kind };
    let base = if tiny {
        *c.rng.pick(&["continuous", "lattice", "clustered"])
    } else if kind == "near-duplicates" { *c.rng.pick(&["continuous", "clustered", "duplicates", "lattice"]) } else { kind };
    let mut x = gen_rows(&mut c.rng, base, n, d);
    let mut scale = 1.0;
    if scaled {
        loop {
            scale = draw_scale(&mut c.rng);
            if scale != 1.0 {
                break;
            }
        }
        x = x.scale(scale);
    }
    if width::<T>() == "f32" {
        x = x.round_f32();
    }
    if kind == "near-duplicates" {
        near_duplicate_rows::<T>(&mut c.rng, &mut x);
    }
    let dat = analyse(x, kind, scale);
    c.bucket(&format!("kind:{}", kind));
    c.bucket(&format!("width:{}", width::<T>()));
    c.bucket(&format!("d:{}", d));
    c.bucket(n_class(n));
    c.bucket(&format!("scale:{}", scale_class(scale)));
    c.bucket_if(dat.distinct < n, "data:duplicate-rows");
    c.bucket_if(dat.mingap < 2e-10, "data:distinct-rows-closer-than-2e-10");
    dat
}

/// signature class of a data set: float width + whether two distinct rows are closer (Chebyshev)
/// than the tree's absolute leaf threshold (2·1e-10), the only input feature the tolerance-based
/// oracles are known to depend on
fn sig<T: RealNumber>(dat: &Data) -> String {
    format!("{}/{}", width::<T>(), if dat.mingap < 2e-10 { "rows-closer-than-2e-10" } else { "regular" })
}

fn hash_case<T: RealNumber>(c: &mut Case, dat: &Data, extra: &[f64]) {
    c.hash_f64s(&dat.x.d);
    c.hash_f64s(&[dat.x.r as f64, dat.x.c as f64, if width::<T>() == "f32" { 1.0 } else { 2.0 }]);
    c.hash_f64s(extra);
    let tag = (scverif::rng::hash_str(c.family) % 1000003) as f64;
    c.hash_f64s(&[tag]);
}

// ------------------------------------------------------------------------------------ tree-build guard
/// Replica of the splitting rule of `BBDTree::build_node` in the arithmetic of T: returns true when
/// some node with max radius >= 1e-10 gets a split value (midpoint of the bounds, rounded) that is
/// not larger than the lower bound, so that all its rows fall on one side.
fn split_hazard<T: RealNumber>(x: &Mat) -> bool {
    let (n, d) = (x.r, x.c);
    let data: Vec<T> = x.d.iter().map(|v| t::<T>(*v)).collect();
    let mut index: Vec<usize> = (0..n).collect();
    let mut stack = vec![(0usize, n)];
    let thr = T::from(1E-10).unwrap();
    let mut guard_nodes = 0usize;
    while let Some((b, e)) = stack.pop() {
        guard_nodes += 1;
        if guard_nodes > 8 * n + 64 {
            return true;
        }
        let mut max_radius = T::from(-1.).unwrap();
        let mut si = 0;
        let mut cutoff = T::zero();
        for j in 0..d {
            let mut lo = data[index[b] * d + j];
            let mut hi = lo;
            for i in b..e {
                let v = data[index[i] * d + j];
                if lo > v {
                    lo = v;
                }
                if hi < v {
                    hi = v;
                }
            }
            let center = (lo + hi) / T::two();
            let radius = (hi - lo) / T::two();
            if radius > max_radius {
                max_radius = radius;
                si = j;
                cutoff = center;
            }
        }
        if max_radius < thr {
            continue;
        }
        let part = &index[b..e];
        let lower: Vec<usize> = part.iter().cloned().filter(|&i| data[i * d + si] < cutoff).collect();
        let upper: Vec<usize> = part.iter().cloned().filter(|&i| !(data[i * d + si] < cutoff)).collect();
        if lower.is_empty() || upper.is_empty() {
            return true;
        }
        let nl = lower.len();
        for (p, v) in lower.into_iter().chain(upper.into_iter()).enumerate() {
            index[b + p] = v;
        }
        stack.push((b, b + nl));
        stack.push((b + nl, e));
    }
    false
}

static PROBE_SEQ: AtomicU64 = AtomicU64::new(0);

/// Builds the tree in a child process. Ok(()) = the child finished normally; Err(description) = it
/// crashed / panicked / did not finish in 30 s; None = the child could not be started.
fn probe_build(x: &Mat, is_f32: bool) -> Option<Result<(), String>> {
    let exe = std::env::current_exe().ok()?;
    let seq = PROBE_SEQ.fetch_add(1, Ordering::SeqCst);
    let path = std::env::temp_dir().join(format!("c12-probe-{}-{}.json", std::process::id(), seq));
    // bit patterns, not decimals: serde_json's default float parser is not correctly rounded
    let body = json!({"f32": is_f32, "rows": x.r, "cols": x.c, "row_major_bits": x.d.iter().map(|v| v.to_bits()).collect::<Vec<u64>>()});
    std::fs::write(&path, body.to_string()).ok()?;
    let child = std::process::Command::new(exe)
        .arg("--probe-build")
        .arg(&path)
        .stdin(std::process::Stdio::null())
        .stdout(std::process::Stdio::null())
        .stderr(std::process::Stdio::piped())
        .spawn();
    let mut child = match child {
        Ok(ch) => ch,
        Err(_) => {
            let _ = std::fs::remove_file(&path);
            return None;
        }
    };
    let t0 = std::time::Instant::now();
    let status = loop {
        match child.try_wait() {
            Ok(Some(st)) => break Some(st),
            Ok(None) => {
                if t0.elapsed().as_secs() >= 30 {
                    let _ = child.kill();
                    let _ = child.wait();
                    break None;
                }
                std::thread::sleep(std::time::Duration::from_millis(5));
            }
            Err(_) => break None,
        }
    };
    let mut err = String::new();
    if let Some(mut e) = child.stderr.take() {
        use std::io::Read;
        let mut buf = Vec::new();
        let _ = e.read_to_end(&mut buf);
        err = String::from_utf8_lossy(&buf).replace('\n', " ");
        if err.len() > 300 {
            err = err.chars().take(300).collect();
        }
    }
    let _ = std::fs::remove_file(&path);
    Some(match status {
        Some(st) if st.success() => Ok(()),
        Some(st) => Err(format!("building the BBD tree in a child process ended with {:?} (stderr: {})", st, err.trim())),
        None => Err("building the BBD tree in a child process did not finish within 30 s".to_string()),
    })
}

fn probe_main(path: &str) -> ! {
    let s = std::fs::read_to_string(path).unwrap_or_default();
    let v: Value = serde_json::from_str(&s).unwrap_or(Value::Null);
    let (r, cc) = (v["rows"].as_u64().unwrap_or(0) as usize, v["cols"].as_u64().unwrap_or(0) as usize);
    let d: Vec<f64> = v["row_major_bits"].as_array().map(|a| a.iter().map(|e| f64::from_bits(e.as_u64().unwrap_or(0))).collect()).unwrap_or_default();
    if r == 0 || cc == 0 || d.len() != r * cc {
        eprintln!("probe: malformed input");
        std::process::exit(3);
    }
    let m = Mat { r, c: cc, d };
    if v["f32"].as_bool() == Some(true) {
        let xm: DenseMatrix<f32> = to_dense(&m);
        let _ = bbd_clustering(&xm, &[vec![0f32; cc]]);
    } else {
        let xm: DenseMatrix<f64> = to_dense(&m);
        let _ = bbd_clustering(&xm, &[vec![0f64; cc]]);
    }
    std::process::exit(0);
}

/// true when it is safe to build the tree on this data in-process
fn tree_builds<T: RealNumber>(c: &mut Case, dat: &Data) -> bool {
    if !split_hazard::<T>(&dat.x) {
        return true;
    }
    c.bucket("tree:one-sided-midpoint-split-predicted");
    match probe_build(&dat.x, width::<T>() == "f32") {
        None => {
            c.inconclusive("could not start the tree-build probe process");
            false
        }
        Some(Ok(())) => {
            c.check("no-crash:bbd-tree-build", true, "", String::new);
            true
        }
        Some(Err(e)) => {
            let sg = format!("{}/midpoint-split-equals-lower-bound", width::<T>());
            c.check("no-crash:bbd-tree-build", false, &sg, || {
                format!("{} — two rows are adjacent floating-point numbers in the splitting coordinate, (lo+hi)/2 rounds to lo, all rows go to the upper child and build_node recurses on the same range", e)
            });
            false
        }
    }
}

// ------------------------------------------------------------------------------------ nearest oracle
struct Near {
    worst: f64, // max over rows of excess / tolerance
    detail: String,
    ties: bool,
    dmin_sum: f64,
}

/// For every row i: d²(x_i, c_label) − min_c d²(x_i, c) ≤ τ·d·(2·S + |c_label|∞ + |c_min|∞)²  (S >= |x_i|∞)
/// `relative`: the distances were computed directly from the coordinate differences (KMeans::predict): their
/// rounding error is relative to the distance itself, not to the magnitude of the data
fn nearest_rel(rows: &Mat, cents: &[Vec<f64>], labels: &[usize], tau: f64, s_data: f64, relative: bool) -> Near {
    let d = rows.c;
    let mut out = Near { worst: 0.0, detail: String::new(), ties: false, dmin_sum: 0.0 };
    let cn: Vec<f64> = cents.iter().map(|c| linf(c)).collect();
    let mut mins: Vec<f64> = Vec::with_capacity(rows.r);
    for i in 0..rows.r {
        let x = &rows.d[i * d..(i + 1) * d];
        let ds: Vec<f64> = cents.iter().map(|c| d2(x, c)).collect();
        let mut jm = 0;
        for j in 1..ds.len() {
            if ds[j] < ds[jm] {
                jm = j;
            }
        }
        mins.push(ds[jm]);
        if (0..ds.len()).any(|j| j != jm && ds[j] == ds[jm] && cents[j] != cents[jm]) {
            out.ties = true;
        }
        let l = labels[i];
        let excess = ds[l] - ds[jm];
        if excess > 0.0 || excess.is_nan() {
            let m = 2.0 * s_data.max(linf(x)) + cn[l] + cn[jm];
            let tol = if relative { (tau / 64.0) * (d as f64 + 4.0) * ds[l].max(ds[jm]) + f64::MIN_POSITIVE } else { tau * d as f64 * m * m };
            let r = if excess.is_nan() {
                f64::INFINITY
            } else if tol > 0.0 {
                excess / tol
            } else {
                f64::INFINITY
            };
            if r > out.worst {
                out.worst = r;
                out.detail = format!("row {} = {:?}: attached to centroid {} at squared distance {:e}, nearest is centroid {} at {:e} (excess {:e}, tolerance {:e})", i, x, l, ds[l], jm, ds[jm], excess, tol);
            }
        }
    }
    out.dmin_sum = csum(mins.into_iter());
    out
}

fn nearest(rows: &Mat, cents: &[Vec<f64>], labels: &[usize], tau: f64, s_data: f64) -> Near {
    nearest_rel(rows, cents, labels, tau, s_data, false)
}

// ------------------------------------------------------------------------------------ k-means fits
struct State {
    y: Vec<usize>,
    size: Vec<usize>,
    cents: Vec<Vec<f64>>,
}

fn read_state<T: W>(c: &mut Case, model: &KMeans<T>, n: usize, d: usize, k: usize, sg: &str) -> Option<State> {
    let v = match serde_json::to_value(model) {
        Ok(v) => v,
        Err(e) => {
            c.check("fit.state-readable", false, sg, || format!("serde_json::to_value failed: {}", e));
            return None;
        }
    };
    let us = |a: &Value| -> Option<Vec<usize>> { a.as_array().and_then(|a| a.iter().map(|e| e.as_u64().map(|u| u as usize)).collect::<Option<Vec<usize>>>()) };
    let kk = v["k"].as_u64().map(|u| u as usize);
    let y = us(&v["_y"]);
    let size = us(&v["size"]);
    let cents: Option<Vec<Vec<f64>>> = v["centroids"].as_array().and_then(|a| {
        a.iter()
            .map(|r| r.as_array().map(|r| r.iter().map(|e| e.as_f64().map(round_t::<T>).unwrap_or(f64::NAN)).collect::<Vec<f64>>()))
            .collect::<Option<Vec<Vec<f64>>>>()
    });
    // a stored `k` is redundant with the number of centroids: its absence from the serialised form is no defect
    let ok = kk.map_or(true, |q| q == k)
        && y.as_ref().map(|y| y.len() == n && y.iter().all(|l| *l < k)).unwrap_or(false)
        && size.as_ref().map(|s| s.len() == k).unwrap_or(false)
        && cents.as_ref().map(|cs| cs.len() == k && cs.iter().all(|r| r.len() == d)).unwrap_or(false);
    c.check("fit.state-shape", ok, sg, || {
        format!(
            "serde view: k = {:?} (asked {}), |_y| = {:?} (n = {}), labels < k: {:?}, |size| = {:?}, centroids = {:?} rows (d = {})",
            kk,
            k,
            y.as_ref().map(|y| y.len()),
            n,
            y.as_ref().map(|y| y.iter().all(|l| *l < k)),
            size.as_ref().map(|s| s.len()),
            cents.as_ref().map(|c| c.len()),
            d
        )
    });
    if !ok {
        return None;
    }
    Some(State { y: y.unwrap(), size: size.unwrap(), cents: cents.unwrap() })
}

/// query recipe drawn before the fit (fixed number of RNG draws, independent of the schedule)
struct Query {
    kind: usize,
    a: f64,
    b: f64,
    w: f64,
    z: Vec<f64>,
}

fn fit_case_t<T: W>(c: &mut Case, kind: &str, scaled: bool) {
    let idx = c.index;
    let dat = draw_data::<T>(c, kind, scaled);
    let (n, d) = (dat.x.r, dat.x.c);
    if dat.distinct < 2 {
        c.skip("generator produced fewer than 2 distinct rows after rounding");
        return;
    }
    if !squares_representable::<T>(n, d, dat.s) {
        c.skip("squared distances of the rescaled data would come within 1e3 of the overflow threshold of the float width");
        return;
    }
    let tiny = kind == "tiny-capped";
    let fits = if tiny { 100 } else { FITS_PER_DATASET };
    let drawn_k = c.rng.us(2, 8.min(dat.distinct));
    let k = if tiny { c.rng.us(3, 4).min(dat.distinct) } else if kind == "multiplicities" && dat.distinct >= 3 && drawn_k % 4 != 0 { 3 } else { drawn_k };
    let max_iter = if tiny {
        c.rng.us(1, 2)
    } else {
        let r = if kind == "multiplicities" { 0.5 + 0.5 * c.rng.f() } else { c.rng.f() };
        if r < 0.3 {
            c.rng.us(1, 3)
        } else if r < 0.7 {
            c.rng.us(4, 20)
        } else {
            c.rng.us(21, 100)
        }
    };
    let nq = c.rng.us(4, 24);
    c.describe(json!({"op": "fit+predict", "width": width::<T>(), "kind": dat.kind, "scale": dat.scale, "k": k, "max_iter": max_iter,
        "distinct_rows": dat.distinct, "fits": fits, "X": mat_json(&dat.x)}));
    hash_case::<T>(c, &dat, &[k as f64, max_iter as f64]);
    c.bucket(&format!("k:{}", k));
    c.bucket(if max_iter == 1 {
        "max_iter:1"
    } else if max_iter <= 3 {
        "max_iter:2-3"
    } else if max_iter <= 20 {
        "max_iter:4-20"
    } else {
        "max_iter:21-100"
    });
    c.bucket_if(dat.distinct == k, "distinct-rows==k");
    let sg = sig::<T>(&dat);
    if std::env::var("C12_TRACE").is_ok() {
        eprintln!("TRACE {}", c.descr);
    }
    if !tree_builds::<T>(c, &dat) {
        c.nontrivial();
        return;
    }
    let xm: DenseMatrix<T> = to_dense(&dat.x);
    let ts = tau_sum::<T>(n);
    let tn = tau_near::<T>();
    let mut proper_mean = false;
    let mut outcomes: Vec<Vec<u64>> = Vec::new();
    for _fit in 0..fits {
        // query recipes first (the number of draws must not depend on what the fit returned)
        let queries: Vec<Query> = (0..nq)
            .map(|_| Query { kind: c.rng.below(5), a: c.rng.f(), b: c.rng.f(), w: c.rng.f(), z: (0..d).map(|_| c.rng.normal()).collect() })
            .collect();
        let params = KMeansParameters::default().with_k(k).with_max_iter(max_iter);
        let model = match c.must("KMeans::fit", || KMeans::fit(&xm, scverif::reused(idx, params))) {
            Some(Ok(m)) => m,
            Some(Err(e)) => {
                c.check("fit.ok", false, &sg, || format!("fit returned Err({}) for k = {}, max_iter = {}, {} distinct rows", e, k, max_iter, dat.distinct));
                continue;
            }
            None => continue,
        };
        c.check("fit.ok", true, &sg, String::new);
        let st = match read_state::<T>(c, &model, n, d, k, &sg) {
            Some(s) => s,
            None => continue,
        };
        // k finite centroids
        let finite = st.cents.iter().all(|r| r.iter().all(|v| v.is_finite()));
        c.check("fit.centroids-finite", finite, &sg, || format!("centroids {:?} (sizes {:?})", st.cents, st.size));
        // sizes are the counts of the last assignment and sum to n
        let mut cnt = vec![0usize; k];
        for &l in &st.y {
            cnt[l] += 1;
        }
        let total: usize = st.size.iter().sum();
        c.check("fit.size=counts", cnt == st.size && total == n, &sg, || format!("size = {:?}, counts of _y = {:?}, sum = {} (n = {})", st.size, cnt, total, n));
        c.bucket_if(cnt.iter().any(|v| *v == 0), "fit:empty-cluster-returned");
        if cnt.iter().any(|v| *v >= 2) {
            proper_mean = true;
        }
        // each centroid with members is the mean of the rows last assigned to it
        if finite {
            let mut worst = 0.0f64;
            let mut det = String::new();
            for cl in 0..k {
                if cnt[cl] == 0 {
                    continue;
                }
                for j in 0..d {
                    let m = csum((0..n).filter(|&i| st.y[i] == cl).map(|i| dat.x.at(i, j))) / cnt[cl] as f64;
                    let e = (st.cents[cl][j] - m).abs();
                    if e > worst {
                        worst = e;
                        det = format!("cluster {} ({} members) coordinate {}: centroid {:e}, mean of its rows {:e}", cl, cnt[cl], j, st.cents[cl][j], m);
                    }
                }
            }
            c.ratio("fit.centroid=mean", worst, ts * dat.s, &sg, || format!("{}; |error| relative to max|x| = {:e}", det, dat.s));
        }
        outcomes.push(st.cents.iter().flat_map(|r| r.iter().map(|v| v.to_bits())).collect());
        if !finite {
            continue;
        }
        // predict: training rows
        match c.must("KMeans::predict", || model.predict(&xm)) {
            Some(Ok(p)) => {
                let p: Vec<f64> = fv(&p);
                let okr = p.len() == n && p.iter().all(|v| *v >= 0.0 && *v < k as f64 && v.fract() == 0.0);
                c.check("predict.labels-valid", okr, &sg, || format!("predict returned {} labels for {} rows: {:?}", p.len(), n, p));
                if okr {
                    let lab: Vec<usize> = p.iter().map(|v| *v as usize).collect();
                    let nr = nearest_rel(&dat.x, &st.cents, &lab, tn, dat.s, true);
                    c.ratio("predict.nearest", nr.worst, 1.0, &sg, || nr.detail.clone());
                    c.bucket_if(nr.ties, "predict:exact-tie");
                    c.bucket_if(lab != st.y, "fit:predict(train)!=last-assignment");
                }
            }
            Some(Err(e)) => {
                c.check("predict.ok", false, &sg, || format!("predict returned Err({})", e));
            }
            None => {}
        }
        // predict: fresh rows (random, data rows, centroid midpoints, centroids, segment points)
        let spread = (0..d).map(|j| dat.hi[j] - dat.lo[j]).fold(0.0f64, f64::max).max(dat.s * 1e-3);
        let q = Mat::from_rows(
            &queries
                .iter()
                .map(|qr| {
                    let ia = ((qr.a * k as f64) as usize).min(k - 1);
                    let ib = ((qr.b * k as f64) as usize).min(k - 1);
                    let row: Vec<f64> = match qr.kind {
                        0 => (0..d).map(|j| 0.5 * (dat.lo[j] + dat.hi[j]) + qr.z[j] * spread).collect(),
                        1 => dat.x.row(((qr.a * n as f64) as usize).min(n - 1)),
                        2 => (0..d).map(|j| 0.5 * (st.cents[ia][j] + st.cents[ib][j])).collect(),
                        3 => st.cents[ia].clone(),
                        _ => (0..d).map(|j| st.cents[ia][j] + qr.w * (st.cents[ib][j] - st.cents[ia][j])).collect(),
                    };
                    row.into_iter().map(round_t::<T>).collect::<Vec<f64>>()
                })
                .collect::<Vec<_>>(),
        );
        // a cluster that ended without members is still one of the k returned centroids: query it directly
        let mut q = q;
        for cl in 0..k {
            if cnt[cl] == 0 && finite {
                q = q.vstack(&Mat::from_rows(&[st.cents[cl].iter().map(|v| round_t::<T>(*v)).collect::<Vec<f64>>()]));
                c.bucket("predict:query-at-memberless-centroid");
            }
        }
        if !q.all_finite() {
            continue;
        }
        let qm: DenseMatrix<T> = to_dense(&q);
        match c.must("KMeans::predict", || model.predict(&qm)) {
            Some(Ok(p)) => {
                let p: Vec<f64> = fv(&p);
                let okr = p.len() == q.r && p.iter().all(|v| *v >= 0.0 && *v < k as f64 && v.fract() == 0.0);
                c.check("predict.labels-valid", okr, &sg, || format!("predict returned {} labels for {} rows: {:?}", p.len(), q.r, p));
                if okr {
                    sequence_checks(c, "predict", &sg, &model, &qm, &p, |m, qq| m.predict(qq));
                }
                if okr {
                    let lab: Vec<usize> = p.iter().map(|v| *v as usize).collect();
                    let nr = nearest_rel(&q, &st.cents, &lab, tn, dat.s, true);
                    c.ratio("predict.nearest", nr.worst, 1.0, &sg, || format!("(fresh rows, centroids {:?}) {}", st.cents, nr.detail));
                    c.bucket_if(nr.ties, "predict:exact-tie");
                }
            }
            Some(Err(e)) => {
                c.check("predict.ok", false, &sg, || format!("predict returned Err({})", e));
            }
            None => {}
        }
    }
    outcomes.sort();
    outcomes.dedup();
    c.bucket_if(outcomes.len() > 1, "schedules:different-centroids-across-fits");
    if proper_mean {
        c.nontrivial();
    }
}

// ------------------------------------------------------------------------------------ assignment step
const CKINDS: [&str; 10] = ["data-rows", "box", "far", "coincident", "partition-means", "symmetric-pairs", "one-side", "mixed", "jittered-rows", "tightest-rows"];

fn gen_centroids(rng: &mut Rng, dat: &Data, k: usize, ckind: &str) -> Vec<Vec<f64>> {
    let (n, d) = (dat.x.r, dat.x.c);
    let spread = (0..d).map(|j| dat.hi[j] - dat.lo[j]).fold(0.0f64, f64::max).max(dat.s * 1e-3).max(f64::MIN_POSITIVE);
    let boxp = |rng: &mut Rng| -> Vec<f64> { (0..d).map(|j| dat.lo[j] + (dat.hi[j] - dat.lo[j]) * rng.f()).collect() };
    let farp = |rng: &mut Rng| -> Vec<f64> {
        let r = spread * rng.logu(10.0, 1e6);
        let dir = rng.normal_vec(d);
        let nn = norm2v(&dir).max(1e-300);
        (0..d).map(|j| 0.5 * (dat.lo[j] + dat.hi[j]) + r * dir[j] / nn).collect()
    };
    match ckind {
        "data-rows" => (0..k).map(|_| dat.x.row(rng.below(n))).collect(),
        "tightest-rows" => {
            // the k rows around the closest pair of distinct rows: the centroids compete at the finest scale of the data
            // (in the deepest cell of a space-partitioning tree)
            let m = n.min(200);
            let mut best: Option<(usize, f64)> = None;
            for a in 0..m {
                for b in 0..a {
                    let dd = csum((0..d).map(|j| (dat.x.at(a, j) - dat.x.at(b, j)).powi(2)));
                    if dd > 0.0 && best.map_or(true, |q| dd < q.1) {
                        best = Some((a, dd));
                    }
                }
            }
            let a0 = best.map(|q| q.0).unwrap_or(0);
            let mut order: Vec<(f64, usize)> = (0..n).map(|i| (csum((0..d).map(|j| (dat.x.at(i, j) - dat.x.at(a0, j)).powi(2))), i)).collect();
            order.sort_by(|p, q| p.partial_cmp(q).unwrap_or(std::cmp::Ordering::Equal));
            order.dedup_by(|p, q| p.0 == q.0);
            (0..k).map(|i| dat.x.row(order[i.min(order.len() - 1)].1)).collect()
        }
        "far" => {
            let all = rng.bool(0.4);
            (0..k).map(|i| if all || i == 0 || rng.bool(0.3) { farp(rng) } else { boxp(rng) }).collect()
        }
        "coincident" => {
            let base = (k + 1) / 2;
            let mut cs: Vec<Vec<f64>> = (0..base).map(|_| if rng.bool(0.5) { boxp(rng) } else { dat.x.row(rng.below(n)) }).collect();
            while cs.len() < k {
                let j = rng.below(base);
                cs.push(cs[j].clone());
            }
            rng.shuffle(&mut cs);
            cs
        }
        "partition-means" => {
            let lab: Vec<usize> = (0..n).map(|_| rng.below(k)).collect();
            (0..k)
                .map(|cl| {
                    let cnt = lab.iter().filter(|l| **l == cl).count();
                    if cnt == 0 {
                        boxp(rng)
                    } else {
                        (0..d).map(|j| csum((0..n).filter(|&i| lab[i] == cl).map(|i| dat.x.at(i, j))) / cnt as f64).collect()
                    }
                })
                .collect()
        }
        "symmetric-pairs" => {
            // c = x_i ± v: row x_i is (nearly) equidistant from both
            let mut cs = Vec::new();
            while cs.len() < k {
                let xi = dat.x.row(rng.below(n));
                let xj = dat.x.row(rng.below(n));
                let h = *rng.pick(&[1.0, 0.5, 2.0]);
                let mut v: Vec<f64> = (0..d).map(|j| h * (xj[j] - xi[j])).collect();
                if v.iter().all(|e| *e == 0.0) {
                    v[rng.below(d)] = spread * 0.25;
                }
                cs.push((0..d).map(|j| xi[j] - v[j]).collect());
                if cs.len() < k {
                    cs.push((0..d).map(|j| xi[j] + v[j]).collect());
                }
            }
            cs
        }
        "one-side" => {
            let j0 = rng.below(d);
            let up = rng.bool(0.5);
            (0..k)
                .map(|_| {
                    let mut p = boxp(rng);
                    let off = spread * rng.logu(0.05, 5.0);
                    p[j0] = if up { dat.hi[j0] + off } else { dat.lo[j0] - off };
                    p
                })
                .collect()
        }
        "mixed" => (0..k)
            .map(|_| match rng.below(3) {
                0 => dat.x.row(rng.below(n)),
                1 => boxp(rng),
                _ => farp(rng),
            })
            .collect(),
        "jittered-rows" => (0..k)
            .map(|_| {
                let r = dat.x.row(rng.below(n));
                let e = spread * rng.logu(1e-9, 1e-2);
                r.iter().map(|v| v + e * rng.normal()).collect()
            })
            .collect(),
        _ => (0..k).map(|_| boxp(rng)).collect(),
    }
}

/// one call of the tree's assignment step + all oracles; returns the number of non-empty clusters
fn check_assignment<T: W>(c: &mut Case, dat: &Data, xm: &DenseMatrix<T>, cents: &[Vec<f64>], sg: &str) -> usize {
    let (n, d) = (dat.x.r, dat.x.c);
    let k = cents.len();
    let ct: Vec<Vec<T>> = cents.iter().map(|r| tv::<T>(r)).collect();
    let (dist, sums, counts, memb) = match c.must("bbd_clustering", || bbd_clustering(xm, &ct)) {
        Some(r) => r,
        None => return 0,
    };
    let dist = f(dist);
    let sums: Vec<Vec<f64>> = sums.iter().map(|r| fv(r)).collect();
    let shape_ok = memb.len() == n && memb.iter().all(|l| *l < k) && counts.len() == k && sums.len() == k && sums.iter().all(|r| r.len() == d);
    c.check("tree.shape", shape_ok, sg, || format!("membership {:?}, counts {:?}, {} sums rows for n = {}, k = {}", memb, counts, sums.len(), n, k));
    if !shape_ok {
        return 0;
    }
    let fin = dist.is_finite() && sums.iter().all(|r| r.iter().all(|v| v.is_finite()));
    c.check("tree.finite", fin, sg, || format!("distortion {:e}, sums {:?}", dist, sums));
    // every row attached to one of its nearest centroids
    let s_cent = cents.iter().map(|r| linf(r)).fold(0.0f64, f64::max);
    let nr = nearest(&dat.x, cents, &memb, tau_near::<T>(), dat.s);
    c.ratio("tree.nearest", nr.worst, 1.0, sg, || format!("centroids {:?}: {}", cents, nr.detail));
    c.bucket_if(nr.ties, "tree:exact-ties");
    // counts = counts of the returned membership (exact), sum n
    let mut cnt = vec![0usize; k];
    for &l in &memb {
        cnt[l] += 1;
    }
    c.check("tree.counts", cnt == counts && counts.iter().sum::<usize>() == n, sg, || format!("returned counts {:?}, counts of the returned membership {:?} (n = {})", counts, cnt, n));
    // sums = sums over the returned membership
    let ts = tau_sum::<T>(n);
    if fin {
        let mut worst = 0.0f64;
        let mut det = String::new();
        for cl in 0..k {
            for j in 0..d {
                let r = csum((0..n).filter(|&i| memb[i] == cl).map(|i| dat.x.at(i, j)));
                let e = (sums[cl][j] - r).abs() / (cnt[cl].max(1) as f64);
                if e > worst {
                    worst = e;
                    det = format!("cluster {} ({} rows) coordinate {}: returned sum {:e}, sum over its rows {:e}", cl, cnt[cl], j, sums[cl][j], r);
                }
            }
        }
        c.ratio("tree.sums", worst, ts * dat.s, sg, || format!("{} (error per member row relative to max|x| = {:e})", det, dat.s));
        // distortion = Σ_i min_c d²  (rounding model: every mean/centroid difference carries an
        // absolute error δ <= (n+2)·ε·S; first-order effect 2·δ·sqrt(d·n·D), second order n·d·δ²)
        let dref = nr.dmin_sum;
        let s_all = dat.s.max(s_cent);
        let delta = (n as f64 + 2.0) * eps::<T>() * s_all;
        let thr = ts * dref + 64.0 * delta * (d as f64 * n as f64 * dref).sqrt() + 64.0 * n as f64 * d as f64 * delta * delta;
        c.ratio("tree.distortion", (dist - dref).abs(), thr, sg, || format!("returned distortion {:e}, sum of minimal squared distances {:e}; centroids {:?}", dist, dref, cents));
    }
    let nonempty = cnt.iter().filter(|v| **v > 0).count();
    c.bucket_if(nonempty < k, "tree:empty-cluster");
    c.bucket_if(nonempty == 1 && k > 1, "tree:all-rows-to-one-centroid");
    c.bucket_if((0..k).any(|a| (0..a).any(|b| cents[a] == cents[b])), "tree:coincident-centroids");
    c.bucket_if(s_cent > 100.0 * dat.s.max(f64::MIN_POSITIVE), "tree:centroid-far-outside");
    nonempty
}

fn assign_case_t<T: W>(c: &mut Case, scaled: bool) {
    let dat = draw_data::<T>(c, "any", scaled);
    let d = dat.x.c;
    if dat.distinct < 2 {
        c.skip("generator produced fewer than 2 distinct rows after rounding");
        return;
    }
    let mut sets: Vec<(String, Vec<Vec<f64>>)> = Vec::new();
    for _ in 0..CALLS_PER_DATASET {
        let k = if scverif::big() > 0 && c.rng.bool(0.5) {
            // more centroids than any narrow index type or fixed-size candidate table holds
            c.rng.us(257, 400)
        } else if c.rng.bool(0.05) {
            1
        } else {
            c.rng.us(2, 8)
        };
        let ck = *c.rng.pick(&CKINDS);
        let cs: Vec<Vec<f64>> = gen_centroids(&mut c.rng, &dat, k, ck).into_iter().map(|r| r.into_iter().map(round_t::<T>).collect()).collect();
        let s_cent = cs.iter().map(|r| linf(r)).fold(0.0f64, f64::max);
        if cs.iter().all(|r| r.iter().all(|v| v.is_finite())) && squares_representable::<T>(dat.x.r, d, dat.s.max(s_cent)) {
            sets.push((ck.to_string(), cs));
        } else {
            // f32 only: data rescaled to 1e12 with centroids 1e6 spreads away overflow the squared distances
            c.bucket("centroids:set-dropped(squared-distances-not-representable)");
        }
    }
    c.describe(json!({"op": "assignment-step", "width": width::<T>(), "kind": dat.kind, "scale": dat.scale, "X": mat_json(&dat.x),
        "centroid_sets": sets.iter().map(|(k, cs)| json!({"kind": k, "centroids": cs})).collect::<Vec<_>>()}));
    let flat: Vec<f64> = sets.iter().flat_map(|(_, cs)| cs.iter().flat_map(|r| r.iter().cloned())).collect();
    hash_case::<T>(c, &dat, &flat);
    let sg = sig::<T>(&dat);
    if std::env::var("C12_TRACE").is_ok() {
        eprintln!("TRACE {}", c.descr);
    }
    if !tree_builds::<T>(c, &dat) {
        c.nontrivial();
        return;
    }
    let xm: DenseMatrix<T> = to_dense(&dat.x);
    let mut two = false;
    for (ck, cs) in &sets {
        c.bucket(&format!("centroids:{}", ck));
        c.bucket(&format!("k:{}", cs.len()));
        debug_assert!(cs.iter().all(|r| r.len() == d));
        if check_assignment::<T>(c, &dat, &xm, cs, &sg) >= 2 {
            two = true;
        }
    }
    if two {
        c.nontrivial();
    }
}

/// exhaustive small scope: 4 rows on {0,1,2,3} (1-D), 2 centroids on a half-step grid reaching outside
fn assign_enum(c: &mut Case) {
    const G: [f64; 8] = [-1.0, 0.0, 0.5, 1.0, 1.5, 2.0, 3.0, 5.0];
    let mut i = c.index;
    let mut rows = Vec::new();
    for _ in 0..4 {
        rows.push(vec![(i % 4) as f64]);
        i /= 4;
    }
    let c0 = G[(i % 8) as usize];
    i /= 8;
    let c1 = G[(i % 8) as usize];
    let x = Mat::from_rows(&rows);
    let dat = analyse(x, "enum-1d", 1.0);
    let cents = vec![vec![c0], vec![c1]];
    c.describe(json!({"op": "assignment-step", "width": "f64", "kind": "enum-1d", "X": mat_json(&dat.x), "centroids": cents}));
    c.set_hash(c.index ^ 0x5bd1e995_u64.rotate_left(21));
    c.bucket("kind:enum-1d");
    c.bucket_if(dat.distinct < 4, "data:duplicate-rows");
    let xm: DenseMatrix<f64> = to_dense(&dat.x);
    let sg = sig::<f64>(&dat);
    check_assignment::<f64>(c, &dat, &xm, &cents, &sg);
    c.nontrivial();
}

// ------------------------------------------------------------------------------------ families
macro_rules! fit_family {
    ($name:ident, $kind:expr, $scaled:expr, $p32:expr) => {
        fn $name(c: &mut Case) {
            if c.rng.bool($p32) {
                fit_case_t::<f32>(c, $kind, $scaled)
            } else {
                fit_case_t::<f64>(c, $kind, $scaled)
            }
        }
    };
}
fit_family!(fit_continuous, "continuous", false, 0.2);
fit_family!(fit_lattice, "lattice", false, 0.2);
fit_family!(fit_clustered, "clustered", false, 0.2);
fit_family!(fit_duplicates, "duplicates", false, 0.2);
fit_family!(fit_collinear, "collinear", false, 0.2);
fit_family!(fit_geometric, "geometric", false, 0.2);
fit_family!(fit_tiny_capped, "tiny-capped", false, 0.2);
fit_family!(fit_near_duplicates, "near-duplicates", false, 0.3);
fit_family!(fit_scaled, "any", true, 0.2);
fit_family!(fit_multiplicities, "multiplicities", false, 0.2);
fit_family!(fit_far_offset, "far-offset", false, 0.0);

fn assign(c: &mut Case) {
    if c.rng.bool(0.2) {
        assign_case_t::<f32>(c, false)
    } else {
        assign_case_t::<f64>(c, false)
    }
}

fn assign_scaled(c: &mut Case) {
    if c.rng.bool(0.2) {
        assign_case_t::<f32>(c, true)
    } else {
        assign_case_t::<f64>(c, true)
    }
}

/// parameter builders keep every configured value whatever the order of the `with_*` steps
fn builders_fam(c: &mut Case) {
    scverif::builders::case(c, "C12")
}

/// the uniform api traits (Predictor / SupervisedEstimator / UnsupervisedEstimator / Transformer) behave
/// exactly like the inherent methods
fn api_paths_fam(c: &mut Case) {
    scverif::apipaths::case(c, "C12")
}

/// fits and assignment steps on 1025..4000 rows, assignment steps also with 257..400 centroids (beyond the ordinary
/// bounds of 300 rows and 8 centroids)
fn large(c: &mut Case) {
    let g = c.index % 4;
    scverif::with_big(1, || match g {
        0 => fit_continuous(c),
        1 => fit_clustered(c),
        2 => fit_lattice(c),
        _ => assign(c),
    })
}

fn main() {
    let args: Vec<String> = std::env::args().collect();
    if args.len() >= 3 && args[1] == "--probe-build" {
        probe_main(&args[2]);
    }
    runner::main(Spec {
        property: "C12",
        rule: "fit_* families: one data set per case (2..300 rows, 1..6 columns; continuous / lattice with exact ties and duplicates / clustered / few distinct points repeated / collinear with constant columns / near-duplicates = rows copied and moved by 1..3 ulps or a relative 1e-13..1e-6; fit_scaled rescales by 10^u or 2^u, 10^u in [1e-12,1e12]; 80 % f64, 20 % f32; 70/30 in fit_near_duplicates), k drawn from 2..min(8, #distinct rows) so that the data has at least k distinct rows by construction, max_iter 1..100, fitted 10 times (the k-means++ seeding uses an unseeded thread-local RNG: the 10 fits are the schedules), every fit followed by predict on the training rows and on 4..24 fresh rows (random, data rows, centroid midpoints, centroids, points on centroid segments); a fit case is non-trivial when some returned cluster had >= 2 members (a centroid is a proper mean). assign / assign_scaled: one data set of the same kinds and 10 centroid sets (k 1..8: data rows, in the box, far outside 10..1e6 spreads, coincident, means of a random partition, symmetric pairs x±v producing ties, all beyond one face, mixed, jittered rows) pushed through the filtering tree; non-trivial when some call attached rows to >= 2 centroids. assign_enum: all 4^4·8^2 = 16384 combinations of 4 rows on {0,1,2,3} and 2 centroids on {-1,0,.5,1,1.5,2,3,5}. distinct = hash of (family, width, data, k, max_iter / centroid sets); large: fits and assignment steps on 1025..4000 rows, assignment steps also with 257..400 centroids; parameter objects are passed to fit as clones in every second case",
        assumptions: vec![
            "the seeding RNG of KMeans::fit is an unseeded thread-local generator: a replay re-creates the data set, k and max_iter exactly but draws new initialisations (10 per replay); a schedule-dependent violation may need several replays",
            "oracle arithmetic is f64 with compensated sums on the already-rounded (f32/f64) inputs; centroids of f32 models are read back from the serde view and re-rounded to f32",
            "nearest-centroid checks accept ties and an excess of squared distance up to 4500·eps·d·(2·max|x| + |c_assigned|inf + |c_nearest|inf)^2 (1e-12·… in f64)",
            "centroid = mean and tree sums are compared relative to max|x| with 1e-9 (f64) / 64·(n+2)·eps (f32); counts and sizes exactly; distortion with 1e-9 relative plus a first-order rounding model in (n+2)·eps·max(|x|,|c|)",
            "the filtering tree is only built in-process when the monitor's replica of its splitting rule finds no split that leaves one side empty; otherwise the build is first observed in a child process (an unbounded recursion overflows the stack and cannot be caught in-process); the verdict no-crash:bbd-tree-build is what the child did",
            "iteration limit 0, k < 2 and data sets with fewer than k distinct rows are outside the property and are not generated",
            "inputs whose squared distances would come within a factor 1e3 of the overflow threshold of the float width (only f32 data rescaled to ~1e12 with centroids 1e6 spreads away) are skipped / dropped and counted",
            "debugging aid: with C12_TRACE set every case prints its input to stderr before the library is called (to identify an input that aborts the process)",
        ],
        families: vec![
            Family::new("api_paths", 300, 3000, api_paths_fam),
            Family::new("builders", 300, 3000, builders_fam),
            Family::new("fit_continuous", 1200, 36000, fit_continuous),
            Family::new("fit_lattice", 1200, 36000, fit_lattice),
            Family::new("fit_clustered", 1000, 30000, fit_clustered),
            Family::new("fit_duplicates", 700, 21000, fit_duplicates),
            Family::new("fit_collinear", 500, 15000, fit_collinear),
            Family::new("fit_geometric", 300, 9000, fit_geometric),
            Family::new("fit_tiny_capped", 500, 8000, fit_tiny_capped),
            Family::new("fit_near_duplicates", 300, 6000, fit_near_duplicates),
            Family::new("fit_scaled", 600, 18000, fit_scaled),
            Family::new("fit_multiplicities", 1500, 40000, fit_multiplicities),
            Family::new("fit_far_offset", 600, 15000, fit_far_offset),
            Family::new("assign", 4500, 135000, assign),
            Family::new("assign_scaled", 1000, 30000, assign_scaled),
            Family::new("large", 200, 1500, large),
            Family::new("assign_enum", 16384, 16384, assign_enum).exhaustive(true, true),
        ],
        min_nontrivial: 4000,
        case_timeout_s: 120,
    });
}
