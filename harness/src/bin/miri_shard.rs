//! Sanitizer shard: small single-threaded workloads meant to run under Miri (`cargo +nightly miri run`),
//! reaching the unsafe code inside ndarray / nalgebra / matrixmultiply / serde_json / bincode through
//! smartcore's binding and serialisation layers. Also runs natively (then it is just a smoke test).
//!   miri_shard c20 <seed> <start> <count>     matrix programs on the three backends vs the model
//!   miri_shard c19 <seed> <start> <count>     DenseMatrix bincode / JSON round trips
use nalgebra::DMatrix;
use ndarray::Array2;
use scverif::matprog::*;
use scverif::refla::Mat;
use scverif::rng::Rng;
use scverif::runner::install_panic_hook;
use scverif::*;
use smartcore::linalg::naive::dense_matrix::DenseMatrix;
use smartcore::linalg::{BaseMatrix, Matrix};

fn step<M: Matrix<f64>>(be: &str, op: &Op, mo: &MOut, regs: &mut BackendRegs<f64, M>, model_regs: &Regs, obs_dense: Option<&Val>, slot: usize) -> Result<Option<(Val, BVal<f64, M>)>, String> {
    match (mo, exec::<f64, M>(op, regs)) {
        (MOut::Reject, Ok(_)) => Err(format!("{}: {:?} accepted incompatible operands", be, op)),
        (MOut::Reject, Err(p)) => {
            if p.in_harness() {
                Err(format!("harness panic {}", p.short()))
            } else {
                Ok(None)
            }
        }
        (MOut::Unspecified(_), _) => Ok(None),
        (_, Err(p)) => Err(format!("{}: {:?} panicked: {}", be, op, p.short())),
        (_, Ok((bv, _))) => {
            let obs = bv.to_val();
            compare(&obs, mo, f64::EPSILON, 1e-290).map_err(|e| format!("{}: {:?}: {}", be, op, e))?;
            let _ = (model_regs, obs_dense, slot);
            Ok(Some((obs, bv)))
        }
    }
}

fn c20_program(rng: &mut Rng) -> Result<usize, String> {
    let (mut regs, _) = draw_regs(rng, 4, false);
    let mut bd: BackendRegs<f64, DenseMatrix<f64>> = BackendRegs::from_model(&regs);
    let mut bn: BackendRegs<f64, Array2<f64>> = BackendRegs::from_model(&regs);
    let mut ba: BackendRegs<f64, DMatrix<f64>> = BackendRegs::from_model(&regs);
    let len = rng.us(1, 5);
    let mut steps = 0;
    for s in 0..len {
        let op = draw_op(rng, &regs, false);
        let mo = model(&op, &regs, f64::EPSILON);
        let rd = step::<DenseMatrix<f64>>("dense", &op, &mo, &mut bd, &regs, None, s)?;
        let rn = step::<Array2<f64>>("ndarray", &op, &mo, &mut bn, &regs, None, s)?;
        let ra = step::<DMatrix<f64>>("nalgebra", &op, &mo, &mut ba, &regs, None, s)?;
        steps += 1;
        if let Some((obs, bv)) = rd {
            store(&mut regs, &obs, s);
            store_backend(&mut bd, bv, &obs, s);
            match rn {
                Some((_, v)) => store_backend(&mut bn, v, &obs, s),
                None => bn = BackendRegs::from_model(&regs),
            }
            match ra {
                Some((_, v)) => store_backend(&mut ba, v, &obs, s),
                None => ba = BackendRegs::from_model(&regs),
            }
        }
    }
    Ok(steps)
}

/// JSON prints the shortest decimal representation; parsing may round the last bit
fn json_close(a: &Mat, b: &Mat) -> bool {
    (a.r, a.c) == (b.r, b.c) && a.d.iter().zip(b.d.iter()).all(|(x, y)| x == y || (x - y).abs() <= 4.0 * f64::EPSILON * x.abs().max(y.abs()))
}

fn c19_roundtrip(rng: &mut Rng) -> Result<usize, String> {
    let r = rng.us(1, 5);
    let c = rng.us(1, 5);
    let kind = *rng.pick(&VALUE_KINDS);
    let f32w = rng.bool(0.4);
    let d = draw_values(rng, r * c, kind, f32w);
    let m = Mat { r, c, d };
    if f32w {
        let a: DenseMatrix<f32> = to_dense(&m);
        let bytes = bincode::serialize(&a).map_err(|e| e.to_string())?;
        let b: DenseMatrix<f32> = bincode::deserialize(&bytes).map_err(|e| e.to_string())?;
        if from_m(&b) != m || b.shape() != (r, c) {
            return Err(format!("bincode f32 round trip changed the matrix {:?}", m));
        }
        let js = serde_json::to_string(&a).map_err(|e| e.to_string())?;
        let b: DenseMatrix<f32> = serde_json::from_str(&js).map_err(|e| e.to_string())?;
        if !(from_m(&b).d.iter().zip(m.d.iter()).all(|(x, y)| x == y || (x - y).abs() <= 4.0 * (f32::EPSILON as f64) * x.abs().max(y.abs()))) {
            return Err(format!("json f32 round trip changed the matrix {:?}", m));
        }
    } else {
        let a: DenseMatrix<f64> = to_dense(&m);
        let bytes = bincode::serialize(&a).map_err(|e| e.to_string())?;
        let b: DenseMatrix<f64> = bincode::deserialize(&bytes).map_err(|e| e.to_string())?;
        if from_m(&b) != m || b.shape() != (r, c) {
            return Err(format!("bincode f64 round trip changed the matrix {:?}", m));
        }
        let js = serde_json::to_string(&a).map_err(|e| e.to_string())?;
        let b: DenseMatrix<f64> = serde_json::from_str(&js).map_err(|e| e.to_string())?;
        if !json_close(&from_m(&b), &m) {
            return Err(format!("json f64 round trip changed the matrix {:?}", m));
        }
        // map form with permuted field order and sequence form
        let v: serde_json::Value = serde_json::from_str(&js).map_err(|e| e.to_string())?;
        let permuted = format!("{{\"values\":{},\"ncols\":{},\"nrows\":{}}}", v["values"], v["ncols"], v["nrows"]);
        let b: DenseMatrix<f64> = serde_json::from_str(&permuted).map_err(|e| e.to_string())?;
        if !json_close(&from_m(&b), &m) {
            return Err(format!("json (permuted fields) changed the matrix {:?}", m));
        }
        let seq = format!("[{},{},{}]", v["nrows"], v["ncols"], v["values"]);
        let b: DenseMatrix<f64> = serde_json::from_str(&seq).map_err(|e| e.to_string())?;
        if !json_close(&from_m(&b), &m) {
            return Err(format!("json (sequence form) changed the matrix {:?}", m));
        }
    }
    Ok(1)
}

fn main() {
    install_panic_hook();
    let a: Vec<String> = std::env::args().collect();
    if a.len() < 5 {
        eprintln!("usage: miri_shard c19|c20 <seed> <start> <count>");
        std::process::exit(2);
    }
    let seed: u64 = a[2].parse().unwrap_or(1);
    let start: u64 = a[3].parse().unwrap_or(0);
    let count: u64 = a[4].parse().unwrap_or(1);
    let mut steps = 0usize;
    for i in start..start + count {
        let mut rng = Rng::for_case(seed, &a[1], "miri", i);
        let r = if a[1] == "c19" { c19_roundtrip(&mut rng) } else { c20_program(&mut rng) };
        match r {
            Ok(s) => steps += s,
            Err(e) => {
                println!("SHARD-MISMATCH kind={} seed={} index={} {}", a[1], seed, i, e);
                std::process::exit(3);
            }
        }
    }
    println!("SHARD-OK kind={} seed={} start={} count={} steps={}", a[1], seed, start, count, steps);
}
