//! Shared structured generators (matrices with controlled conditioning, shapes, scales, data sets).

use crate::refla::*;
use crate::rng::Rng;

/// size in 1..=max biased to small values
pub fn size(rng: &mut Rng, max: usize) -> usize {
    // the `*_large` families: beyond the ordinary bound, up to 3.5 times as large
    if crate::big() == 2 {
        // a few cases far beyond the bound: orders above 256
        return rng.us(258, 300);
    }
    if crate::big() > 0 {
        return rng.us(max + 1, max * 7 / 2);
    }
    let r = rng.f();
    let hi = if r < 0.45 {
        6.min(max)
    } else if r < 0.8 {
        16.min(max)
    } else {
        max
    };
    rng.us(1, hi)
}

pub fn scale_class(s: f64) -> &'static str {
    if s < 1e-6 {
        "tiny"
    } else if s > 1e6 {
        "huge"
    } else {
        "unit"
    }
}

/// overall rescaling factor: 1 (50 %), 10^u or 2^u with 10^u in [1e-12, 1e12]
pub fn draw_scale(rng: &mut Rng) -> f64 {
    let r = rng.f();
    if r < 0.5 {
        1.0
    } else if r < 0.8 {
        10f64.powi(rng.int(-12, 12) as i32)
    } else {
        2f64.powi(rng.int(-39, 39) as i32)
    }
}

pub const FULLRANK_KINDS: [&str; 10] = ["dense", "graded", "integer", "diagonal", "triangular", "permutation", "orthogonal", "lowrank+ridge", "zeros-inside", "spread-magnitudes"];

/// m×n matrix of full rank min(m,n) of the given structural kind. The condition number is *not*
/// guaranteed here except for "graded", "orthogonal", "permutation"; callers measure it.
pub fn fullrank(rng: &mut Rng, m: usize, n: usize, kind: &str, maxcond: f64) -> Mat {
    let k = m.min(n);
    match kind {
        "graded" => {
            let c = rng.logu(1.0, maxcond);
            let mut s = graded(k, c);
            if rng.bool(0.3) {
                // clustered / repeated singular values
                for i in 1..k {
                    if rng.bool(0.5) {
                        s[i] = s[i - 1];
                    }
                }
            }
            with_singular_values(rng, m, n, &s)
        }
        "integer" => Mat::from_fn(m, n, |_, _| rng.int(-9, 9) as f64),
        "spread-magnitudes" => {
            // ordinary dense matrix in which a quarter of the entries are smaller by 3..8 orders of magnitude
            // (small or tiny diagonal candidates with small or large alternatives below them: the pivot
            // search has to find the largest entry, not just a larger one)
            Mat::from_fn(m, n, |_, _| {
                let v = rng.normal() + if rng.bool(0.5) { 1.0 } else { -1.0 };
                if rng.bool(0.25) {
                    v * 10f64.powf(-rng.uni(3.0, 8.0))
                } else {
                    v
                }
            })
        }
        "diagonal" => {
            let lim = maxcond.sqrt().min(1e3);
            Mat::from_fn(m, n, |i, j| {
                if i == j {
                    let v = rng.logu(1.0 / lim, lim);
                    if rng.bool(0.5) {
                        -v
                    } else {
                        v
                    }
                } else {
                    0.0
                }
            })
        }
        "triangular" => {
            let upper = rng.bool(0.5);
            Mat::from_fn(m, n, |i, j| {
                if i == j {
                    let v = rng.uni(0.5, 2.0);
                    if rng.bool(0.5) {
                        -v
                    } else {
                        v
                    }
                } else if (upper && j > i) || (!upper && i > j) {
                    0.3 * rng.normal()
                } else {
                    0.0
                }
            })
        }
        "permutation" => {
            // k ones in distinct rows and columns (a permutation when square), random signs
            let pr = rng.perm(m);
            let pc = rng.perm(n);
            let mut a = Mat::zeros(m, n);
            for t in 0..k {
                a.set(pr[t], pc[t], if rng.bool(0.3) { -1.0 } else { 1.0 });
            }
            a
        }
        "orthogonal" => {
            if m >= n {
                rand_orth_cols(rng, m, n)
            } else {
                rand_orth_cols(rng, n, m).t()
            }
        }
        "lowrank+ridge" => {
            let r = rng.us(1, k.max(2) / 2 + 0).max(1);
            let b = Mat::randn(rng, m, r);
            let c = Mat::randn(rng, r, n);
            let mut a = b.mul(&c);
            let delta = rng.logu(1e-2, 1.0) * a.fro().max(1.0) / (k as f64).sqrt();
            for i in 0..k {
                let v = a.at(i, i) + delta;
                a.set(i, i, v);
            }
            a
        }
        "zeros-inside" => {
            // well-conditioned triangular core, rows permuted so that leading entries are zero and the
            // pivot has to be found further down (with negative alternatives); for tall matrices some
            // complete rows are zero, for wide ones some complete columns.
            let mut core = Mat::from_fn(k, k, |i, j| {
                if i == j {
                    let v = rng.uni(0.5, 2.0);
                    if rng.bool(0.6) {
                        -v
                    } else {
                        v
                    }
                } else if j > i {
                    if rng.bool(0.5) {
                        0.0
                    } else {
                        0.4 * rng.normal()
                    }
                } else {
                    0.0
                }
            });
            if k > 1 && rng.bool(0.5) {
                // add a dense well-scaled rank-one part in the lower-right block to mix signs
                let i0 = rng.us(1, k - 1);
                for i in i0..k {
                    for j in i0..k {
                        if i != j {
                            let v = core.at(i, j) + 0.1 * rng.normal();
                            core.set(i, j, v);
                        }
                    }
                }
            }
            // cyclic row shift puts zeros on the leading entries
            let shift = if k > 1 { rng.us(1, k - 1) } else { 0 };
            let rows: Vec<usize> = (0..k).map(|i| (i + shift) % k).collect();
            let shifted = Mat::from_fn(k, k, |i, j| core.at(rows[i], j));
            if m == n {
                shifted
            } else if m > n {
                // spread the k rows over m positions, other rows zero or combinations
                let mut pos = rng.perm(m);
                pos.truncate(k);
                pos.sort();
                let mut a = Mat::zeros(m, n);
                for (t, &p) in pos.iter().enumerate() {
                    for j in 0..n {
                        a.set(p, j, shifted.at(t, j));
                    }
                }
                a
            } else {
                let mut pos = rng.perm(n);
                pos.truncate(k);
                pos.sort();
                let mut a = Mat::zeros(m, n);
                for (t, &p) in pos.iter().enumerate() {
                    for i in 0..m {
                        a.set(i, p, shifted.at(i, t));
                    }
                }
                a
            }
        }
        _ => Mat::randn(rng, m, n),
    }
}

/// SPD matrix with condition number <= maxcond
pub fn spd(rng: &mut Rng, n: usize, maxcond: f64) -> (Mat, &'static str) {
    if rng.bool(0.5) {
        let q = rand_orth(rng, n);
        let c = rng.logu(1.0, maxcond);
        let lam = graded(n, c);
        let ql = Mat::from_fn(n, n, |i, j| q.at(i, j) * lam[j]);
        let mut a = ql.mul(&q.t());
        sym(&mut a);
        (a, "Q*diag*Qt")
    } else {
        let b = Mat::randn(rng, n, n);
        let mut a = b.mul(&b.t());
        let delta = rng.logu(1e-2, 1.0) * a.fro().max(1e-300) / (n as f64);
        for i in 0..n {
            let v = a.at(i, i) + delta;
            a.set(i, i, v);
        }
        sym(&mut a);
        (a, "B*Bt+dI")
    }
}

pub fn sym(a: &mut Mat) {
    for i in 0..a.r {
        for j in 0..i {
            let v = 0.5 * (a.at(i, j) + a.at(j, i));
            a.set(i, j, v);
            a.set(j, i, v);
        }
    }
}

/// Regression/classification design matrix: n rows, p columns, controlled conditioning of the
/// centred, column-normalised part, column scales in [smin,smax], non-zero column means.
pub fn design(rng: &mut Rng, n: usize, p: usize, maxcond: f64, smin: f64, smax: f64, mean_mag: f64) -> Mat {
    let k = p.min(n);
    let c = rng.logu(1.0, maxcond);
    let s = graded(k, c);
    let base = with_singular_values(rng, n, p, &s).scale((n as f64).sqrt());
    let scales: Vec<f64> = (0..p).map(|_| rng.logu(smin, smax)).collect();
    let means: Vec<f64> = (0..p).map(|j| if mean_mag > 0.0 { rng.normal() * mean_mag * scales[j] } else { 0.0 }).collect();
    Mat::from_fn(n, p, |i, j| base.at(i, j) * scales[j] + means[j])
}

/// Label sets that are valid (k distinct finite values, returned ascending) but defeat the usual shortcuts:
/// end points 0 and k-1 with fractional values between them, values that agree after truncation to an integer,
/// values that are distinct only in double precision (equal once narrowed to f32), integers beyond the 16/32-bit
/// and 2^24 ranges, and values that collide modulo 65536.
pub fn tricky_labels(rng: &mut Rng, k: usize) -> (Vec<f64>, &'static str) {
    for _ in 0..50 {
        let (mut v, name): (Vec<f64>, &'static str) = match rng.below(6) {
            0 => {
                let mut v = vec![0.0, (k - 1) as f64];
                while v.len() < k {
                    v.push(rng.int(1, (8 * (k as i64 - 1) - 1).max(1)) as f64 / 8.0 + 0.0625);
                }
                (v, "ends-0-and-k-1/fractional-between")
            }
            1 => {
                let base = rng.int(-5, 5) as f64;
                ((0..k).map(|_| base + rng.int(1, 15) as f64 / 16.0).collect(), "equal-after-truncation")
            }
            2 => {
                let base: f64 = *rng.pick(&[1.0e8, 123456789.0, 0.1, -3.3, 1.0e12]);
                ((0..k).map(|j| if base.abs() >= 1e6 { base + j as f64 } else { base * (1.0 + j as f64 * 1e-9) }).collect(), "distinct-only-in-f64")
            }
            3 => {
                let base: f64 = *rng.pick(&[65535.0, 65536.0, 16777216.0, 2147483647.0, 4294967296.0, 9007199254740990.0]);
                ((0..k).map(|j| base + j as f64 - if rng.bool(0.5) { 1.0 } else { 0.0 }).collect(), "beyond-integer-type-ranges")
            }
            4 => {
                let r = rng.int(0, 40) as f64;
                ((0..k).map(|j| r + 65536.0 * j as f64).collect(), "equal-modulo-65536")
            }
            _ => ((0..k).map(|j| -(j as f64) - if j == 0 { 0.0 } else { 0.5 }).collect(), "zero-and-negative-fractions"),
        };
        v.sort_by(|a, b| a.partial_cmp(b).unwrap_or(std::cmp::Ordering::Equal));
        v.dedup();
        if v.len() == k && v.iter().all(|x| x.is_finite()) {
            return (v, name);
        }
    }
    ((0..k).map(|j| j as f64 * 1.5).collect(), "multiples-of-1.5")
}

/// Tie-free value orders that drive a median-of-three quicksort (first / middle / last sample, pivot parked at
/// position l+1, ranges shorter than 8 finished by insertion — the scheme of the library's `quick_argsort`) into
/// its most lopsided partitions: with `left = true` every pivot is the second largest value of its range, so the
/// left part shrinks by two per step and everything else lands on the right; with `left = false` every pivot is
/// the second smallest. A sort that always defers the same side needs a stack as deep as n/2 on one of the two.
/// Constructed by running the partition scheme on symbolic cells and fixing the outcome of every comparison.
pub fn sort_killer(n: usize, left: bool) -> Vec<f64> {
    let mut pos: Vec<usize> = (0..n).collect(); // pos[p] = original index of the cell now at position p
    let mut val: Vec<Option<usize>> = vec![None; n];
    if n < 8 {
        return (0..n).map(|i| i as f64).collect();
    }
    let (mut l, mut ir) = (0usize, n - 1);
    let (mut hi, mut lo) = (n - 1, 0usize);
    while ir - l >= 7 {
        let k = (l + ir) >> 1;
        pos.swap(k, l + 1);
        if left {
            val[pos[ir]] = Some(hi);
            val[pos[l + 1]] = Some(hi - 1);
            hi -= 2;
            // partition: i stops at ir, j at ir-1; the pivot goes to ir-1, the cell from ir-1 to l+1
            let a = pos[l + 1];
            pos[l + 1] = pos[ir - 1];
            pos[ir - 1] = a;
            ir -= 2;
        } else {
            val[pos[l]] = Some(lo);
            val[pos[l + 1]] = Some(lo + 1);
            lo += 2;
            // partition: i stops at l+2, j at l+1; nothing moves, the right part is l+2..=ir
            l += 2;
        }
    }
    // the cells never sampled get the remaining ranks in position order
    let mut next = lo;
    for p in l..=ir {
        val[pos[p]] = Some(next);
        next += 1;
    }
    (0..n).map(|i| val[i].unwrap_or(0) as f64).collect()
}
