//! Deterministic PRNG owned by the harness (xoshiro256** seeded through SplitMix64), so that a replay
//! never depends on the version of the `rand` crate.

#[derive(Clone, Debug)]
pub struct Rng {
    s: [u64; 4],
}

pub fn splitmix(x: &mut u64) -> u64 {
    *x = x.wrapping_add(0x9E3779B97F4A7C15);
    let mut z = *x;
    z = (z ^ (z >> 30)).wrapping_mul(0xBF58476D1CE4E5B9);
    z = (z ^ (z >> 27)).wrapping_mul(0x94D049BB133111EB);
    z ^ (z >> 31)
}

pub fn hash_str(s: &str) -> u64 {
    // FNV-1a
    let mut h: u64 = 0xcbf29ce484222325;
    for b in s.as_bytes() {
        h ^= *b as u64;
        h = h.wrapping_mul(0x100000001b3);
    }
    h
}

pub fn hash_bytes(bytes: &[u8]) -> u64 {
    let mut h: u64 = 0xcbf29ce484222325;
    for b in bytes {
        h ^= *b as u64;
        h = h.wrapping_mul(0x100000001b3);
    }
    h
}

impl Rng {
    pub fn new(seed: u64) -> Rng {
        let mut x = seed;
        let s = [
            splitmix(&mut x),
            splitmix(&mut x),
            splitmix(&mut x),
            splitmix(&mut x),
        ];
        Rng { s }
    }

    /// Stream for case `index` of `family` of `property` under `seed`.
    pub fn for_case(seed: u64, property: &str, family: &str, index: u64) -> Rng {
        let mut x = seed ^ hash_str(property).rotate_left(17) ^ hash_str(family).rotate_left(39);
        let a = splitmix(&mut x);
        let mut y = a ^ index.wrapping_mul(0xD6E8FEB86659FD93);
        Rng::new(splitmix(&mut y))
    }

    pub fn next_u64(&mut self) -> u64 {
        let result = self.s[1].wrapping_mul(5).rotate_left(7).wrapping_mul(9);
        let t = self.s[1] << 17;
        self.s[2] ^= self.s[0];
        self.s[3] ^= self.s[1];
        self.s[1] ^= self.s[2];
        self.s[0] ^= self.s[3];
        self.s[2] ^= t;
        self.s[3] = self.s[3].rotate_left(45);
        result
    }

    /// uniform in [0,1)
    pub fn f(&mut self) -> f64 {
        (self.next_u64() >> 11) as f64 / (1u64 << 53) as f64
    }

    /// uniform in [a,b)
    pub fn uni(&mut self, a: f64, b: f64) -> f64 {
        a + (b - a) * self.f()
    }

    /// log-uniform in [a,b], a,b > 0
    pub fn logu(&mut self, a: f64, b: f64) -> f64 {
        (self.uni(a.ln(), b.ln())).exp()
    }

    /// integer in [a,b] inclusive
    pub fn int(&mut self, a: i64, b: i64) -> i64 {
        debug_assert!(b >= a);
        let span = (b - a) as u64 + 1;
        a + (self.next_u64() % span) as i64
    }

    /// usize in [a,b] inclusive
    pub fn us(&mut self, a: usize, b: usize) -> usize {
        self.int(a as i64, b as i64) as usize
    }

    pub fn below(&mut self, n: usize) -> usize {
        (self.next_u64() % n as u64) as usize
    }

    pub fn bool(&mut self, p: f64) -> bool {
        self.f() < p
    }

    pub fn normal(&mut self) -> f64 {
        let u1 = 1.0 - self.f();
        let u2 = self.f();
        (-2.0 * u1.ln()).sqrt() * (2.0 * std::f64::consts::PI * u2).cos()
    }

    pub fn pick<'a, T>(&mut self, xs: &'a [T]) -> &'a T {
        &xs[self.below(xs.len())]
    }

    pub fn shuffle<T>(&mut self, xs: &mut [T]) {
        for i in (1..xs.len()).rev() {
            let j = self.below(i + 1);
            xs.swap(i, j);
        }
    }

    pub fn perm(&mut self, n: usize) -> Vec<usize> {
        let mut p: Vec<usize> = (0..n).collect();
        self.shuffle(&mut p);
        p
    }

    pub fn normal_vec(&mut self, n: usize) -> Vec<f64> {
        (0..n).map(|_| self.normal()).collect()
    }
}
