//! Executable row-major model of the matrix / vector abstraction (C03, C20): an `Op` language, the
//! reference semantics of every op on `Mat` / `Vec<f64>` with a per-entry forward-error scale, a generic
//! executor that runs the same op on any `M: Matrix<T>` backend, and the comparison logic.

use crate::refla::*;
use crate::rng::Rng;
use crate::runner::{guard, PanicInfo};
use crate::{f, fv, t, tv};
use serde_json::{json, Value};
use smartcore::linalg::{BaseVector, Matrix};
use smartcore::math::num::RealNumber;

#[derive(Clone, Copy, Debug, PartialEq)]
pub enum Ar {
    Add,
    Sub,
    Mul,
    Div,
}

#[derive(Clone, Debug)]
pub enum Op {
    // ---- matrix results
    Transpose(usize),
    Matmul(usize, usize),
    Ab(usize, bool, usize, bool),
    HStack(usize, usize),
    VStack(usize, usize),
    Slice(usize, usize, usize, usize, usize),
    Reshape(usize, usize, usize),
    Take(usize, Vec<usize>, u8),
    FromRowVector(usize),
    Eye(usize),
    Fill(usize, usize, f64),
    Zeros(usize, usize),
    Ones(usize, usize),
    Bin(Ar, usize, usize),
    Scalar(Ar, usize, f64),
    ElemMut(Ar, usize, usize, usize, f64),
    Set(usize, usize, usize, f64),
    Negative(usize),
    Abs(usize),
    Pow(usize, f64),
    Binarize(usize, f64),
    Softmax(usize),
    /// scale_mut(mean, std, axis) with explicit mean / std vectors
    Scale(usize, u8, Vec<f64>, Vec<f64>),
    Cov(usize),
    CopyFrom(usize, usize),
    // ---- vector results
    ToRowVector(usize),
    GetRow(usize, usize),
    GetRowAsVec(usize, usize),
    GetColAsVec(usize, usize),
    CopyRowAsVec(usize, usize),
    CopyColAsVec(usize, usize),
    ColumnMean(usize),
    Mean(usize, u8),
    Var(usize, u8),
    Std(usize, u8),
    Unique(usize),
    // ---- scalar results
    Get(usize, usize, usize),
    Dot(usize, usize),
    Norm2(usize),
    Norm(usize, f64),
    Sum(usize),
    Min(usize),
    Max(usize),
    MaxDiff(usize, usize),
    // ---- bool / index results
    Eq(usize, usize),
    ApproxEq(usize, usize, f64),
    Argmax(usize),
    Shape(usize),
    /// equality tests between a matrix and a copy of it with one entry changed by delta
    PerturbedEq(usize, usize, usize, f64),
    PerturbedApproxEq(usize, usize, usize, f64, f64),
    PerturbedMaxDiff(usize, usize, usize, f64),
    /// equality tests between a matrix and the matrix of transposed shape holding the same row-major data
    EqReshaped(usize),
    ApproxEqReshaped(usize, f64),
    // ---- vector ops (operands are vector registers)
    VBin(Ar, usize, usize),
    VScalar(Ar, usize, f64),
    VElemMut(Ar, usize, usize, f64),
    VSet(usize, usize, f64),
    VDot(usize, usize),
    VNorm2(usize),
    VNorm(usize, f64),
    VSum(usize),
    VMean(usize),
    VVar(usize),
    VStd(usize),
    VUnique(usize),
    VTake(usize, Vec<usize>),
    VApproxEq(usize, usize, f64),
    VCopyFrom(usize, usize),
    VFill(usize, f64),
    VLen(usize),
    VZeros(usize),
    VOnes(usize),
    VPerturbedApproxEq(usize, usize, f64, f64),
}

impl Op {
    pub fn name(&self) -> String {
        let s = format!("{:?}", self);
        let cut = s.find('(').unwrap_or(s.len());
        let base = s[..cut].to_string();
        match self {
            Op::Bin(k, _, _) | Op::Scalar(k, _, _) | Op::ElemMut(k, _, _, _, _) | Op::VBin(k, _, _) | Op::VScalar(k, _, _) | Op::VElemMut(k, _, _, _) => format!("{}{:?}", base, k),
            Op::Ab(_, a, _, b) => format!("Ab{}{}", if *a { "T" } else { "N" }, if *b { "T" } else { "N" }),
            _ => base,
        }
    }
}

#[derive(Clone, Debug, PartialEq)]
pub enum Val {
    M(Mat),
    V(Vec<f64>),
    S(f64),
    B(bool),
    I(Vec<usize>),
}

impl Val {
    pub fn json(&self) -> Value {
        match self {
            Val::M(m) => json!({"M": {"rows": m.r, "cols": m.c, "row_major": m.d}}),
            Val::V(v) => json!({ "V": v }),
            Val::S(s) => json!({ "S": s }),
            Val::B(b) => json!({ "B": b }),
            Val::I(i) => json!({ "I": i }),
        }
    }
}

/// What the reference model says about one op.
#[derive(Clone, Debug)]
pub enum MOut {
    /// expected value, per-entry absolute error scale (same shape; entries 0.0 = exact), tolerance multiplier
    Val(Val, Vec<f64>, f64),
    /// the operands are incompatible: the implementation must reject (panic)
    Reject,
    /// the statement leaves the result open for these operands
    Unspecified(&'static str),
    /// special comparison
    Special(Special),
}

#[derive(Clone, Debug)]
pub enum Special {
    /// variance / std accurate relative to the spread: reference values + absolute floor per entry
    SpreadRel { reference: Vec<f64>, floor: Vec<f64>, is_std: bool },
    /// one admissible index set per row
    ArgmaxOneOf(Vec<Vec<usize>>),
    /// softmax: reference + scale, plus probability-vector checks
    Softmax { reference: Mat, scale: Vec<f64> },
}

pub struct Regs {
    pub m: Vec<Mat>,
    pub v: Vec<Vec<f64>>,
}

fn exact(n: usize) -> Vec<f64> {
    vec![0.0; n]
}

fn ar(k: Ar, a: f64, b: f64) -> (f64, f64) {
    match k {
        Ar::Add => (a + b, a.abs() + b.abs()),
        Ar::Sub => (a - b, a.abs() + b.abs()),
        Ar::Mul => (a * b, (a * b).abs()),
        Ar::Div => (a / b, (a / b).abs()),
    }
}

fn finite_all(v: &[f64]) -> bool {
    v.iter().all(|x| x.is_finite())
}

fn pnorm(xs: &[f64], p: f64) -> (f64, f64) {
    let n = xs.len() as f64;
    if p.is_infinite() && p > 0.0 {
        (xs.iter().fold(f64::NEG_INFINITY, |m, x| m.max(x.abs())), 0.0)
    } else if p.is_infinite() {
        (xs.iter().fold(f64::INFINITY, |m, x| m.min(x.abs())), 0.0)
    } else {
        // scaled to avoid spurious overflow in the reference
        let mx = xs.iter().fold(0.0f64, |m, x| m.max(x.abs()));
        if mx == 0.0 {
            return (0.0, 0.0);
        }
        let s = csum(xs.iter().map(|x| (x.abs() / mx).powf(p)));
        let v = mx * s.powf(1.0 / p);
        (v, v * (n + 8.0) * (2.0 + p))
    }
}

/// population variance by a two-pass compensated algorithm + the floor below which spread is noise
fn var_ref(xs: &[f64], epsw: f64) -> (f64, f64) {
    let v = var_pop(xs);
    let mx = xs.iter().fold(0.0f64, |m, x| m.max(x.abs()));
    let n = xs.len() as f64;
    let fl = (4.0 * n * epsw * mx).powi(2);
    (v.max(0.0), fl)
}

/// Reference semantics. `epsw` = machine epsilon of the width under test (only used for floors).
pub fn model(op: &Op, r: &Regs, epsw: f64) -> MOut {
    // largest finite value of the width under test: when the expected value or the natural
    // intermediate of the formula (bounded by the forward-error scale) leaves the range, the formula
    // does not "stay finite" in that width and the result is left open
    let maxw = if epsw > 1e-10 { f32::MAX as f64 } else { f64::MAX };
    let out = model_raw(op, r, epsw);
    let over = |x: f64| !(x.abs() < maxw / 64.0);
    match &out {
        MOut::Val(v, sc, _) => {
            let big = match v {
                Val::M(m) => m.d.iter().any(|x| over(*x)),
                Val::V(v) => v.iter().any(|x| over(*x)),
                Val::S(s) => over(*s),
                _ => false,
            } || sc.iter().any(|x| over(*x));
            if big {
                return MOut::Unspecified("formula leaves the finite range of the float width");
            }
            // intermediates of norms / variance: n * max^p
            let src: Option<(Vec<f64>, f64)> = match op {
                Op::Norm2(a) => Some((r.m[*a].d.clone(), 2.0)),
                Op::Norm(a, p) if p.is_finite() => Some((r.m[*a].d.clone(), *p)),
                Op::VNorm2(a) => Some((r.v[*a].clone(), 2.0)),
                Op::VNorm(a, p) if p.is_finite() => Some((r.v[*a].clone(), *p)),
                _ => None,
            };
            if let Some((xs, p)) = src {
                let mx = xs.iter().fold(0.0f64, |q, x| q.max(x.abs()));
                if over(mx.powf(p) * xs.len() as f64) || (mx > 0.0 && mx.powf(p) < maxw.recip() * 1e6) {
                    return MOut::Unspecified("formula leaves the finite range of the float width");
                }
            }
            out
        }
        MOut::Special(Special::SpreadRel { .. }) => {
            let xs: Vec<f64> = match op {
                Op::Var(a, _) | Op::Std(a, _) => r.m[*a].d.clone(),
                Op::VVar(a) | Op::VStd(a) => r.v[*a].clone(),
                _ => vec![],
            };
            let mx = xs.iter().fold(0.0f64, |q, x| q.max(x.abs()));
            if over(mx * mx * xs.len() as f64) {
                return MOut::Unspecified("formula leaves the finite range of the float width");
            }
            // squares of the deviations underflow in the width under test
            let minw = if epsw > 1e-10 { f32::MIN_POSITIVE as f64 } else { f64::MIN_POSITIVE };
            if let MOut::Special(Special::SpreadRel { reference, .. }) = &out {
                if reference.iter().any(|v| *v > 0.0 && *v < minw * 1e9) || (mx > 0.0 && mx * mx < minw * 1e9) {
                    return MOut::Unspecified("formula leaves the normal range of the float width");
                }
            }
            out
        }
        _ => out,
    }
}

fn model_raw(op: &Op, r: &Regs, epsw: f64) -> MOut {
    use MOut::*;
    let m = &r.m;
    let v = &r.v;
    let val_m = |mat: Mat, sc: Vec<f64>, k: f64| -> MOut {
        if !finite_all(&mat.d) {
            Unspecified("non-finite expected value")
        } else {
            Val(self::Val::M(mat), sc, k)
        }
    };
    let val_v = |vec: Vec<f64>, sc: Vec<f64>, k: f64| -> MOut {
        if !finite_all(&vec) {
            Unspecified("non-finite expected value")
        } else {
            Val(self::Val::V(vec), sc, k)
        }
    };
    let val_s = |s: f64, sc: f64, k: f64| -> MOut {
        if !s.is_finite() {
            Unspecified("non-finite expected value")
        } else {
            Val(self::Val::S(s), vec![sc], k)
        }
    };
    match op {
        Op::Transpose(a) => {
            let x = m[*a].t();
            let n = x.d.len();
            val_m(x, exact(n), 0.0)
        }
        Op::Matmul(a, b) => matmul_model(&m[*a], &m[*b]),
        Op::Ab(a, at, b, bt) => {
            let x = if *at { m[*a].t() } else { m[*a].clone() };
            let y = if *bt { m[*b].t() } else { m[*b].clone() };
            matmul_model(&x, &y)
        }
        Op::HStack(a, b) => {
            if m[*a].r != m[*b].r {
                Reject
            } else {
                let x = m[*a].hstack(&m[*b]);
                let n = x.d.len();
                val_m(x, exact(n), 0.0)
            }
        }
        Op::VStack(a, b) => {
            if m[*a].c != m[*b].c {
                Reject
            } else {
                let x = m[*a].vstack(&m[*b]);
                let n = x.d.len();
                val_m(x, exact(n), 0.0)
            }
        }
        Op::Slice(a, r0, r1, c0, c1) => {
            let x = m[*a].slice(*r0, *r1, *c0, *c1);
            let n = x.d.len();
            val_m(x, exact(n), 0.0)
        }
        Op::Reshape(a, rr, cc) => {
            if m[*a].r * m[*a].c != rr * cc {
                Reject
            } else {
                let x = Mat { r: *rr, c: *cc, d: m[*a].d.clone() };
                let n = x.d.len();
                val_m(x, exact(n), 0.0)
            }
        }
        Op::Take(a, idx, axis) => {
            let s = &m[*a];
            let x = if *axis == 0 { Mat::from_fn(idx.len(), s.c, |i, j| s.at(idx[i], j)) } else { Mat::from_fn(s.r, idx.len(), |i, j| s.at(i, idx[j])) };
            let n = x.d.len();
            val_m(x, exact(n), 0.0)
        }
        Op::FromRowVector(u) => {
            let x = Mat { r: 1, c: v[*u].len(), d: v[*u].clone() };
            let n = x.d.len();
            val_m(x, exact(n), 0.0)
        }
        Op::Eye(n) => val_m(Mat::eye(*n), exact(n * n), 0.0),
        Op::Fill(rr, cc, x) => val_m(Mat::from_fn(*rr, *cc, |_, _| *x), exact(rr * cc), 0.0),
        Op::Zeros(rr, cc) => val_m(Mat::zeros(*rr, *cc), exact(rr * cc), 0.0),
        Op::Ones(rr, cc) => val_m(Mat::from_fn(*rr, *cc, |_, _| 1.0), exact(rr * cc), 0.0),
        Op::Bin(k, a, b) => {
            if (m[*a].r, m[*a].c) != (m[*b].r, m[*b].c) {
                Reject
            } else {
                let pairs: Vec<(f64, f64)> = m[*a].d.iter().zip(m[*b].d.iter()).map(|(x, y)| ar(*k, *x, *y)).collect();
                val_m(Mat { r: m[*a].r, c: m[*a].c, d: pairs.iter().map(|p| p.0).collect() }, pairs.iter().map(|p| p.1).collect(), 2.0)
            }
        }
        Op::Scalar(k, a, s) => {
            let pairs: Vec<(f64, f64)> = m[*a].d.iter().map(|x| ar(*k, *x, *s)).collect();
            val_m(Mat { r: m[*a].r, c: m[*a].c, d: pairs.iter().map(|p| p.0).collect() }, pairs.iter().map(|p| p.1).collect(), 2.0)
        }
        Op::ElemMut(k, a, i, j, x) => {
            let mut out = m[*a].clone();
            let mut sc = exact(out.d.len());
            let (nv, s) = ar(*k, out.at(*i, *j), *x);
            out.set(*i, *j, nv);
            sc[*i * out.c + *j] = s;
            val_m(out, sc, 2.0)
        }
        Op::Set(a, i, j, x) => {
            let mut out = m[*a].clone();
            out.set(*i, *j, *x);
            let n = out.d.len();
            val_m(out, exact(n), 0.0)
        }
        Op::Negative(a) => val_m(m[*a].scale(-1.0), exact(m[*a].d.len()), 0.0),
        Op::Abs(a) => val_m(Mat { r: m[*a].r, c: m[*a].c, d: m[*a].d.iter().map(|x| x.abs()).collect() }, exact(m[*a].d.len()), 0.0),
        Op::Pow(a, p) => {
            let d: Vec<f64> = m[*a].d.iter().map(|x| x.powf(*p)).collect();
            let sc: Vec<f64> = m[*a].d.iter().zip(d.iter()).map(|(x, y)| y.abs() * (2.0 + p.abs() * (1.0 + x.abs().ln().abs()))).collect();
            val_m(Mat { r: m[*a].r, c: m[*a].c, d }, sc, 4.0)
        }
        Op::Binarize(a, thr) => val_m(Mat { r: m[*a].r, c: m[*a].c, d: m[*a].d.iter().map(|x| if *x > *thr { 1.0 } else { 0.0 }).collect() }, exact(m[*a].d.len()), 0.0),
        Op::Softmax(a) => {
            let s = &m[*a];
            let mx = s.d.iter().fold(f64::NEG_INFINITY, |q, x| q.max(*x));
            let e: Vec<f64> = s.d.iter().map(|x| (x - mx).exp()).collect();
            let z = csum(e.iter().cloned());
            let n = e.len() as f64;
            let reference = Mat { r: s.r, c: s.c, d: e.iter().map(|x| x / z).collect() };
            let scale: Vec<f64> = s.d.iter().zip(reference.d.iter()).map(|(x, p)| p * (6.0 + (x - mx).abs() + n)).collect();
            Special(self::Special::Softmax { reference, scale })
        }
        Op::Scale(a, axis, means, stds) => {
            let s = &m[*a];
            let out = Mat::from_fn(s.r, s.c, |i, j| {
                let g = if *axis == 0 { j } else { i };
                (s.at(i, j) - means[g]) / stds[g]
            });
            // (x − mean)/std evaluated as written: the subtraction and the division each round once, so the error is
            // a few ulps of the *result* — not of |x| + |mean| (a rewrite as x·(1/std) − mean·(1/std) loses
            // log10(|mean|/|x − mean|) digits and is a loss of accuracy, not rounding)
            let sc: Vec<f64> = (0..s.r * s.c)
                .map(|q| {
                    let (i, j) = (q / s.c, q % s.c);
                    let g = if *axis == 0 { j } else { i };
                    ((s.at(i, j) - means[g]) / stds[g]).abs()
                })
                .collect();
            val_m(out, sc, 4.0)
        }
        Op::Cov(a) => {
            let s = &m[*a];
            if s.r < 2 {
                return Unspecified("covariance of fewer than two rows");
            }
            let mu: Vec<f64> = (0..s.c).map(|j| mean_v(&s.col(j))).collect();
            let denom = (s.r - 1) as f64;
            let out = Mat::from_fn(s.c, s.c, |i, j| csum((0..s.r).map(|k| (s.at(k, i) - mu[i]) * (s.at(k, j) - mu[j]))) / denom);
            let sc: Vec<f64> = (0..s.c * s.c)
                .map(|q| {
                    let (i, j) = (q / s.c, q % s.c);
                    (s.r as f64 + 4.0) * csum((0..s.r).map(|k| (s.at(k, i).abs() + mu[i].abs()) * (s.at(k, j).abs() + mu[j].abs()))) / denom
                })
                .collect();
            val_m(out, sc, 4.0)
        }
        Op::CopyFrom(a, b) => {
            if (m[*a].r, m[*a].c) != (m[*b].r, m[*b].c) {
                Reject
            } else {
                val_m(m[*b].clone(), exact(m[*b].d.len()), 0.0)
            }
        }
        Op::ToRowVector(a) => val_v(m[*a].d.clone(), exact(m[*a].d.len()), 0.0),
        Op::GetRow(a, i) | Op::GetRowAsVec(a, i) => val_v(m[*a].row(*i), exact(m[*a].c), 0.0),
        Op::GetColAsVec(a, j) => val_v(m[*a].col(*j), exact(m[*a].r), 0.0),
        // the receiver may be longer than the row / column: the prefix is overwritten, tail and length stay
        Op::CopyRowAsVec(a, i) => {
            let mut v = m[*a].row(*i);
            v.extend(std::iter::repeat(RECEIVER_FILL).take(receiver_extra(*a, *i)));
            let n = v.len();
            val_v(v, exact(n), 0.0)
        }
        Op::CopyColAsVec(a, j) => {
            let mut v = m[*a].col(*j);
            v.extend(std::iter::repeat(RECEIVER_FILL).take(receiver_extra(*a, *j)));
            let n = v.len();
            val_v(v, exact(n), 0.0)
        }
        Op::ColumnMean(a) => mean_model(&m[*a], 0),
        Op::Mean(a, axis) => mean_model(&m[*a], *axis),
        Op::Var(a, axis) | Op::Std(a, axis) => {
            let s = &m[*a];
            let is_std = matches!(op, Op::Std(_, _));
            let (groups, len) = if *axis == 0 { (s.c, s.r) } else { (s.r, s.c) };
            let mut reference = vec![0.0; groups];
            let mut floor = vec![0.0; groups];
            for g in 0..groups {
                let xs: Vec<f64> = (0..len).map(|i| if *axis == 0 { s.at(i, g) } else { s.at(g, i) }).collect();
                let (vr, fl) = var_ref(&xs, epsw);
                reference[g] = vr;
                floor[g] = fl;
            }
            if !finite_all(&reference) {
                return Unspecified("non-finite expected value");
            }
            Special(self::Special::SpreadRel { reference, floor, is_std })
        }
        Op::Unique(a) => {
            let mut u = m[*a].d.clone();
            u.sort_by(|x, y| x.partial_cmp(y).unwrap());
            u.dedup();
            let n = u.len();
            val_v(u, exact(n), 0.0)
        }
        Op::Get(a, i, j) => val_s(m[*a].at(*i, *j), 0.0, 0.0),
        Op::Dot(a, b) => {
            let (x, y) = (&m[*a], &m[*b]);
            if x.d.len() != y.d.len() || (x.r != 1 && x.c != 1) || (y.r != 1 && y.c != 1) {
                // dot is defined between two vectors (row or column) of equal length; everything else is an
                // incompatible pairing and must be rejected, not read in storage order
                Reject
            } else {
                let n = x.d.len() as f64;
                val_s(dotv(&x.d, &y.d), (n + 1.0) * csum(x.d.iter().zip(y.d.iter()).map(|(p, q)| (p * q).abs())), 2.0)
            }
        }
        Op::Norm2(a) => {
            let (nv, sc) = pnorm(&m[*a].d, 2.0);
            val_s(nv, sc, 2.0)
        }
        Op::Norm(a, p) => {
            let (nv, sc) = pnorm(&m[*a].d, *p);
            val_s(nv, sc, 2.0)
        }
        Op::Sum(a) => val_s(csum(m[*a].d.iter().cloned()), (m[*a].d.len() as f64) * csum(m[*a].d.iter().map(|x| x.abs())), 2.0),
        Op::Min(a) => val_s(m[*a].d.iter().fold(f64::INFINITY, |q, x| q.min(*x)), 0.0, 0.0),
        Op::Max(a) => val_s(m[*a].d.iter().fold(f64::NEG_INFINITY, |q, x| q.max(*x)), 0.0, 0.0),
        Op::MaxDiff(a, b) => {
            if (m[*a].r, m[*a].c) != (m[*b].r, m[*b].c) {
                Unspecified("max_diff of different shapes")
            } else {
                let d = m[*a].d.iter().zip(m[*b].d.iter()).fold(0.0f64, |q, (x, y)| q.max((x - y).abs()));
                let sc = m[*a].d.iter().zip(m[*b].d.iter()).fold(0.0f64, |q, (x, y)| q.max(x.abs() + y.abs()));
                val_s(d, sc, 2.0)
            }
        }
        Op::Eq(a, b) => {
            let (x, y) = (&m[*a], &m[*b]);
            if (x.r, x.c) != (y.r, y.c) {
                Val(self::Val::B(false), vec![], 0.0)
            } else if x.d == y.d {
                Val(self::Val::B(true), vec![], 0.0)
            } else {
                let big = x.d.iter().zip(y.d.iter()).any(|(p, q)| (p - q).abs() > 1e-6 * (p.abs().max(q.abs()).max(1.0)));
                if big {
                    Val(self::Val::B(false), vec![], 0.0)
                } else {
                    Unspecified("operands differ by less than 1e-6 relative: equality band left open")
                }
            }
        }
        Op::ApproxEq(a, b, err) => {
            let (x, y) = (&m[*a], &m[*b]);
            if (x.r, x.c) != (y.r, y.c) {
                Val(self::Val::B(false), vec![], 0.0)
            } else {
                let worst = x.d.iter().zip(y.d.iter()).fold(0.0f64, |q, (p, s)| q.max((p - s).abs()));
                // decisions within rounding of the boundary are left open
                if (worst - err).abs() <= 8.0 * epsw * (worst.abs() + err.abs()) {
                    Unspecified("approximate_eq exactly at the boundary")
                } else {
                    Val(self::Val::B(worst <= *err), vec![], 0.0)
                }
            }
        }
        Op::Argmax(a) => {
            let s = &m[*a];
            let sets: Vec<Vec<usize>> = (0..s.r)
                .map(|i| {
                    let row = s.row(i);
                    let mx = row.iter().fold(f64::NEG_INFINITY, |q, x| q.max(*x));
                    (0..s.c).filter(|&j| row[j] == mx).collect()
                })
                .collect();
            Special(self::Special::ArgmaxOneOf(sets))
        }
        Op::Shape(a) => Val(self::Val::I(vec![m[*a].r, m[*a].c]), vec![], 0.0),
        Op::PerturbedEq(a, i, j, delta) => {
            let x = m[*a].at(*i, *j);
            let y = x + delta;
            if y == x {
                Val(self::Val::B(true), vec![], 0.0)
            } else if (y - x).abs() > 1e-6 * x.abs().max(y.abs()).max(1.0) {
                Val(self::Val::B(false), vec![], 0.0)
            } else {
                Unspecified("operands differ by less than 1e-6 relative: equality band left open")
            }
        }
        Op::PerturbedApproxEq(a, i, j, delta, err) => {
            let x = m[*a].at(*i, *j);
            let worst = ((x + delta) - x).abs();
            if (worst - err).abs() <= 8.0 * epsw * (worst.abs() + err.abs() + x.abs()) {
                Unspecified("approximate_eq exactly at the boundary")
            } else {
                Val(self::Val::B(worst <= *err), vec![], 0.0)
            }
        }
        Op::EqReshaped(a) | Op::ApproxEqReshaped(a, _) => {
            if m[*a].r == m[*a].c {
                Unspecified("square matrix: reshaping to the transposed shape changes nothing")
            } else {
                Val(self::Val::B(false), vec![], 0.0)
            }
        }
        Op::PerturbedMaxDiff(a, i, j, delta) => {
            let x = m[*a].at(*i, *j);
            val_s(((x + delta) - x).abs(), 2.0 * x.abs() + delta.abs(), 2.0)
        }
        // ---------------- vectors
        Op::VBin(k, a, b) => {
            if v[*a].len() != v[*b].len() {
                Reject
            } else {
                let pairs: Vec<(f64, f64)> = v[*a].iter().zip(v[*b].iter()).map(|(x, y)| ar(*k, *x, *y)).collect();
                val_v(pairs.iter().map(|p| p.0).collect(), pairs.iter().map(|p| p.1).collect(), 2.0)
            }
        }
        Op::VScalar(k, a, s) => {
            let pairs: Vec<(f64, f64)> = v[*a].iter().map(|x| ar(*k, *x, *s)).collect();
            val_v(pairs.iter().map(|p| p.0).collect(), pairs.iter().map(|p| p.1).collect(), 2.0)
        }
        Op::VElemMut(k, a, i, x) => {
            let mut out = v[*a].clone();
            let mut sc = exact(out.len());
            let (nv, s) = ar(*k, out[*i], *x);
            out[*i] = nv;
            sc[*i] = s;
            val_v(out, sc, 2.0)
        }
        Op::VSet(a, i, x) => {
            let mut out = v[*a].clone();
            out[*i] = *x;
            let n = out.len();
            val_v(out, exact(n), 0.0)
        }
        Op::VDot(a, b) => {
            if v[*a].len() != v[*b].len() {
                Reject
            } else {
                let n = v[*a].len() as f64;
                val_s(dotv(&v[*a], &v[*b]), (n + 1.0) * csum(v[*a].iter().zip(v[*b].iter()).map(|(p, q)| (p * q).abs())), 2.0)
            }
        }
        Op::VNorm2(a) => {
            let (nv, sc) = pnorm(&v[*a], 2.0);
            val_s(nv, sc, 2.0)
        }
        Op::VNorm(a, p) => {
            let (nv, sc) = pnorm(&v[*a], *p);
            val_s(nv, sc, 2.0)
        }
        Op::VSum(a) => val_s(csum(v[*a].iter().cloned()), (v[*a].len() as f64) * csum(v[*a].iter().map(|x| x.abs())), 2.0),
        Op::VMean(a) => val_s(mean_v(&v[*a]), (v[*a].len() as f64 + 1.0) * csum(v[*a].iter().map(|x| x.abs())) / v[*a].len() as f64, 2.0),
        Op::VVar(a) | Op::VStd(a) => {
            let (vr, fl) = var_ref(&v[*a], epsw);
            if !vr.is_finite() {
                return Unspecified("non-finite expected value");
            }
            Special(self::Special::SpreadRel { reference: vec![vr], floor: vec![fl], is_std: matches!(op, Op::VStd(_)) })
        }
        Op::VUnique(a) => {
            let mut u = v[*a].clone();
            u.sort_by(|x, y| x.partial_cmp(y).unwrap());
            u.dedup();
            let n = u.len();
            val_v(u, exact(n), 0.0)
        }
        Op::VTake(a, idx) => val_v(idx.iter().map(|i| v[*a][*i]).collect(), exact(idx.len()), 0.0),
        Op::VApproxEq(a, b, err) => {
            if v[*a].len() != v[*b].len() {
                Val(self::Val::B(false), vec![], 0.0)
            } else {
                let worst = v[*a].iter().zip(v[*b].iter()).fold(0.0f64, |q, (p, s)| q.max((p - s).abs()));
                if (worst - err).abs() <= 8.0 * epsw * (worst.abs() + err.abs()) {
                    Unspecified("approximate_eq exactly at the boundary")
                } else {
                    Val(self::Val::B(worst <= *err), vec![], 0.0)
                }
            }
        }
        Op::VCopyFrom(a, b) => {
            if v[*a].len() != v[*b].len() {
                Reject
            } else {
                val_v(v[*b].clone(), exact(v[*b].len()), 0.0)
            }
        }
        Op::VFill(n, x) => val_v(vec![*x; *n], exact(*n), 0.0),
        Op::VZeros(n) => val_v(vec![0.0; *n], exact(*n), 0.0),
        Op::VOnes(n) => val_v(vec![1.0; *n], exact(*n), 0.0),
        Op::VPerturbedApproxEq(a, i, delta, err) => {
            let x = v[*a][*i];
            let worst = ((x + delta) - x).abs();
            if (worst - err).abs() <= 8.0 * epsw * (worst.abs() + err.abs() + x.abs()) {
                Unspecified("approximate_eq exactly at the boundary")
            } else {
                Val(self::Val::B(worst <= *err), vec![], 0.0)
            }
        }
        Op::VLen(a) => Val(self::Val::I(vec![v[*a].len()]), vec![], 0.0),
    }
}

fn matmul_model(x: &Mat, y: &Mat) -> MOut {
    if x.c != y.r {
        return MOut::Reject;
    }
    let out = x.mul(y);
    if !finite_all(&out.d) {
        return MOut::Unspecified("non-finite expected value");
    }
    let k = x.c as f64;
    let ax = Mat { r: x.r, c: x.c, d: x.d.iter().map(|v| v.abs()).collect() };
    let ay = Mat { r: y.r, c: y.c, d: y.d.iter().map(|v| v.abs()).collect() };
    let sc = ax.mul(&ay).scale(k + 1.0);
    if !finite_all(&sc.d) {
        return MOut::Unspecified("non-finite error scale");
    }
    MOut::Val(Val::M(out), sc.d, 2.0)
}

fn mean_model(s: &Mat, axis: u8) -> MOut {
    let (groups, len) = if axis == 0 { (s.c, s.r) } else { (s.r, s.c) };
    let mut out = vec![0.0; groups];
    let mut sc = vec![0.0; groups];
    for g in 0..groups {
        let xs: Vec<f64> = (0..len).map(|i| if axis == 0 { s.at(i, g) } else { s.at(g, i) }).collect();
        out[g] = mean_v(&xs);
        sc[g] = (len as f64 + 1.0) * csum(xs.iter().map(|x| x.abs())) / len as f64;
    }
    if !finite_all(&out) || !finite_all(&sc) {
        return MOut::Unspecified("non-finite expected value");
    }
    MOut::Val(Val::V(out), sc, 2.0)
}

// ------------------------------------------------------------------------------------------------
// generic executor

pub struct BackendRegs<T: RealNumber, M: Matrix<T>> {
    pub m: Vec<M>,
    pub v: Vec<M::RowVector>,
    pub _t: std::marker::PhantomData<T>,
}

impl<T: RealNumber, M: Matrix<T>> BackendRegs<T, M> {
    pub fn from_model(r: &Regs) -> Self {
        BackendRegs { m: r.m.iter().map(|x| crate::to_m::<T, M>(x)).collect(), v: r.v.iter().map(|x| M::RowVector::from_array(&tv::<T>(x))).collect(), _t: std::marker::PhantomData }
    }
}

pub enum BVal<T: RealNumber, M: Matrix<T>> {
    M(M),
    V(M::RowVector),
    PV(Vec<T>),
    S(T),
    B(bool),
    I(Vec<usize>),
}

impl<T: RealNumber, M: Matrix<T>> BVal<T, M> {
    pub fn to_val(&self) -> Val {
        match self {
            BVal::M(m) => Val::M(crate::from_m(m)),
            BVal::V(v) => Val::V(fv(&v.to_vec())),
            BVal::PV(v) => Val::V(fv(v)),
            BVal::S(s) => Val::S(f(*s)),
            BVal::B(b) => Val::B(*b),
            BVal::I(i) => Val::I(i.clone()),
        }
    }
}

fn bitwise_same(a: &Val, b: &Val) -> bool {
    fn same(x: f64, y: f64) -> bool {
        x.to_bits() == y.to_bits() || (x.is_nan() && y.is_nan()) || x == y
    }
    match (a, b) {
        (Val::M(x), Val::M(y)) => (x.r, x.c) == (y.r, y.c) && x.d.iter().zip(y.d.iter()).all(|(p, q)| same(*p, *q)),
        (Val::V(x), Val::V(y)) => x.len() == y.len() && x.iter().zip(y.iter()).all(|(p, q)| same(*p, *q)),
        (Val::S(x), Val::S(y)) => same(*x, *y),
        _ => a == b,
    }
}

/// Executes one op on a backend. In-place and copying variants are both executed where both exist;
/// `Err(String)` in the inner result reports that they disagree bit-for-bit.
pub fn exec<T: RealNumber, M: Matrix<T>>(op: &Op, r: &BackendRegs<T, M>) -> Result<(BVal<T, M>, Option<String>), PanicInfo> {
    let m = &r.m;
    let v = &r.v;
    guard(|| {
        let mut note: Option<String> = None;
        let mut both = |copy: &M, inplace: &M, what: &str| {
            if !bitwise_same(&Val::M(crate::from_m(copy)), &Val::M(crate::from_m(inplace))) {
                note = Some(format!("{}: in-place and copying variants differ", what));
            }
        };
        let out: BVal<T, M> = match op {
            Op::Transpose(a) => BVal::M(m[*a].transpose()),
            Op::Matmul(a, b) => BVal::M(m[*a].matmul(&m[*b])),
            Op::Ab(a, at, b, bt) => BVal::M(m[*a].ab(*at, &m[*b], *bt)),
            Op::HStack(a, b) => BVal::M(m[*a].h_stack(&m[*b])),
            Op::VStack(a, b) => BVal::M(m[*a].v_stack(&m[*b])),
            Op::Slice(a, r0, r1, c0, c1) => BVal::M(m[*a].slice(*r0..*r1, *c0..*c1)),
            Op::Reshape(a, rr, cc) => BVal::M(m[*a].reshape(*rr, *cc)),
            Op::Take(a, idx, axis) => BVal::M(m[*a].take(idx, *axis)),
            Op::FromRowVector(u) => BVal::M(M::from_row_vector(v[*u].clone())),
            Op::Eye(n) => BVal::M(M::eye(*n)),
            Op::Fill(rr, cc, x) => BVal::M(M::fill(*rr, *cc, t(*x))),
            Op::Zeros(rr, cc) => BVal::M(M::zeros(*rr, *cc)),
            Op::Ones(rr, cc) => BVal::M(M::ones(*rr, *cc)),
            Op::Bin(k, a, b) => {
                let (x, y) = (&m[*a], &m[*b]);
                let c = match k {
                    Ar::Add => x.add(y),
                    Ar::Sub => x.sub(y),
                    Ar::Mul => x.mul(y),
                    Ar::Div => x.div(y),
                };
                let mut i = x.clone();
                match k {
                    Ar::Add => {
                        i.add_mut(y);
                    }
                    Ar::Sub => {
                        i.sub_mut(y);
                    }
                    Ar::Mul => {
                        i.mul_mut(y);
                    }
                    Ar::Div => {
                        i.div_mut(y);
                    }
                }
                both(&c, &i, "elementwise");
                BVal::M(c)
            }
            Op::Scalar(k, a, s) => {
                let x = &m[*a];
                let s: T = t(*s);
                let c = match k {
                    Ar::Add => x.add_scalar(s),
                    Ar::Sub => x.sub_scalar(s),
                    Ar::Mul => x.mul_scalar(s),
                    Ar::Div => x.div_scalar(s),
                };
                let mut i = x.clone();
                match k {
                    Ar::Add => {
                        i.add_scalar_mut(s);
                    }
                    Ar::Sub => {
                        i.sub_scalar_mut(s);
                    }
                    Ar::Mul => {
                        i.mul_scalar_mut(s);
                    }
                    Ar::Div => {
                        i.div_scalar_mut(s);
                    }
                }
                both(&c, &i, "scalar");
                BVal::M(c)
            }
            Op::ElemMut(k, a, i, j, x) => {
                let mut c = m[*a].clone();
                let x: T = t(*x);
                match k {
                    Ar::Add => c.add_element_mut(*i, *j, x),
                    Ar::Sub => c.sub_element_mut(*i, *j, x),
                    Ar::Mul => c.mul_element_mut(*i, *j, x),
                    Ar::Div => c.div_element_mut(*i, *j, x),
                }
                BVal::M(c)
            }
            Op::Set(a, i, j, x) => {
                let mut c = m[*a].clone();
                c.set(*i, *j, t(*x));
                BVal::M(c)
            }
            Op::Negative(a) => {
                let c = m[*a].negative();
                let mut i = m[*a].clone();
                i.negative_mut();
                both(&c, &i, "negative");
                BVal::M(c)
            }
            Op::Abs(a) => {
                let c = m[*a].abs();
                let mut i = m[*a].clone();
                i.abs_mut();
                both(&c, &i, "abs");
                BVal::M(c)
            }
            Op::Pow(a, p) => {
                let mut src = m[*a].clone();
                let c = src.pow(t(*p));
                let mut i = m[*a].clone();
                i.pow_mut(t(*p));
                both(&c, &i, "pow");
                // `pow` takes `&mut self` for historical reasons but is the copying variant: its receiver stays as it was
                both(&m[*a], &src, "pow (copying variant) changed its receiver: receiver before vs after");
                BVal::M(c)
            }
            Op::Binarize(a, thr) => {
                let c = m[*a].binarize(t(*thr));
                let mut i = m[*a].clone();
                i.binarize_mut(t(*thr));
                both(&c, &i, "binarize");
                BVal::M(c)
            }
            Op::Softmax(a) => {
                let mut c = m[*a].clone();
                c.softmax_mut();
                BVal::M(c)
            }
            Op::Scale(a, axis, means, stds) => {
                let mut c = m[*a].clone();
                c.scale_mut(&tv::<T>(means), &tv::<T>(stds), *axis);
                BVal::M(c)
            }
            Op::Cov(a) => BVal::M(m[*a].cov()),
            Op::CopyFrom(a, b) => {
                let mut c = m[*a].clone();
                c.copy_from(&m[*b]);
                BVal::M(c)
            }
            Op::ToRowVector(a) => BVal::V(m[*a].clone().to_row_vector()),
            Op::GetRow(a, i) => BVal::V(m[*a].get_row(*i)),
            Op::GetRowAsVec(a, i) => BVal::PV(m[*a].get_row_as_vec(*i)),
            Op::GetColAsVec(a, j) => BVal::PV(m[*a].get_col_as_vec(*j)),
            Op::CopyRowAsVec(a, i) => {
                let mut buf = vec![T::from_f64(RECEIVER_FILL).unwrap(); m[*a].shape().1 + receiver_extra(*a, *i)];
                m[*a].copy_row_as_vec(*i, &mut buf);
                BVal::PV(buf)
            }
            Op::CopyColAsVec(a, j) => {
                let mut buf = vec![T::from_f64(RECEIVER_FILL).unwrap(); m[*a].shape().0 + receiver_extra(*a, *j)];
                m[*a].copy_col_as_vec(*j, &mut buf);
                BVal::PV(buf)
            }
            Op::ColumnMean(a) => BVal::PV(m[*a].column_mean()),
            Op::Mean(a, axis) => BVal::PV(m[*a].mean(*axis)),
            Op::Var(a, axis) => BVal::PV(m[*a].var(*axis)),
            Op::Std(a, axis) => BVal::PV(m[*a].std(*axis)),
            Op::Unique(a) => BVal::PV(m[*a].unique()),
            Op::Get(a, i, j) => BVal::S(m[*a].get(*i, *j)),
            Op::Dot(a, b) => BVal::S(m[*a].dot(&m[*b])),
            Op::Norm2(a) => BVal::S(m[*a].norm2()),
            Op::Norm(a, p) => BVal::S(m[*a].norm(t(*p))),
            Op::Sum(a) => BVal::S(m[*a].sum()),
            Op::Min(a) => BVal::S(m[*a].min()),
            Op::Max(a) => BVal::S(m[*a].max()),
            Op::MaxDiff(a, b) => BVal::S(m[*a].max_diff(&m[*b])),
            Op::Eq(a, b) => BVal::B(m[*a] == m[*b]),
            Op::ApproxEq(a, b, err) => BVal::B(m[*a].approximate_eq(&m[*b], t(*err))),
            Op::Argmax(a) => BVal::I(m[*a].argmax()),
            Op::Shape(a) => {
                let (rr, cc) = m[*a].shape();
                BVal::I(vec![rr, cc])
            }
            Op::PerturbedEq(a, i, j, delta) => {
                let mut b = m[*a].clone();
                b.set(*i, *j, t(f(m[*a].get(*i, *j)) + *delta));
                BVal::B(m[*a] == b && b == m[*a])
            }
            Op::PerturbedApproxEq(a, i, j, delta, err) => {
                let mut b = m[*a].clone();
                b.set(*i, *j, t(f(m[*a].get(*i, *j)) + *delta));
                let r1 = m[*a].approximate_eq(&b, t(*err));
                let r2 = b.approximate_eq(&m[*a], t(*err));
                if r1 != r2 {
                    note = Some("approximate_eq is not symmetric".to_string());
                }
                BVal::B(r1)
            }
            Op::EqReshaped(a) => {
                let (rr, cc) = m[*a].shape();
                let b = m[*a].reshape(cc, rr);
                BVal::B(m[*a] == b || b == m[*a])
            }
            Op::ApproxEqReshaped(a, err) => {
                let (rr, cc) = m[*a].shape();
                let b = m[*a].reshape(cc, rr);
                BVal::B(m[*a].approximate_eq(&b, t(*err)) || b.approximate_eq(&m[*a], t(*err)))
            }
            Op::PerturbedMaxDiff(a, i, j, delta) => {
                let mut b = m[*a].clone();
                b.set(*i, *j, t(f(m[*a].get(*i, *j)) + *delta));
                BVal::S(m[*a].max_diff(&b))
            }
            Op::VBin(k, a, b) => {
                let (x, y) = (&v[*a], &v[*b]);
                let c = match k {
                    Ar::Add => x.add(y),
                    Ar::Sub => x.sub(y),
                    Ar::Mul => x.mul(y),
                    Ar::Div => x.div(y),
                };
                let mut i = x.clone();
                match k {
                    Ar::Add => {
                        i.add_mut(y);
                    }
                    Ar::Sub => {
                        i.sub_mut(y);
                    }
                    Ar::Mul => {
                        i.mul_mut(y);
                    }
                    Ar::Div => {
                        i.div_mut(y);
                    }
                }
                if !bitwise_same(&Val::V(fv(&c.to_vec())), &Val::V(fv(&i.to_vec()))) {
                    note = Some("vector elementwise: in-place and copying variants differ".to_string());
                }
                BVal::V(c)
            }
            Op::VScalar(k, a, s) => {
                let x = &v[*a];
                let s: T = t(*s);
                let c = match k {
                    Ar::Add => x.add_scalar(s),
                    Ar::Sub => x.sub_scalar(s),
                    Ar::Mul => x.mul_scalar(s),
                    Ar::Div => x.div_scalar(s),
                };
                let mut i = x.clone();
                match k {
                    Ar::Add => {
                        i.add_scalar_mut(s);
                    }
                    Ar::Sub => {
                        i.sub_scalar_mut(s);
                    }
                    Ar::Mul => {
                        i.mul_scalar_mut(s);
                    }
                    Ar::Div => {
                        i.div_scalar_mut(s);
                    }
                }
                if !bitwise_same(&Val::V(fv(&c.to_vec())), &Val::V(fv(&i.to_vec()))) {
                    note = Some("vector scalar: in-place and copying variants differ".to_string());
                }
                BVal::V(c)
            }
            Op::VElemMut(k, a, i, x) => {
                let mut c = v[*a].clone();
                let x: T = t(*x);
                match k {
                    Ar::Add => c.add_element_mut(*i, x),
                    Ar::Sub => c.sub_element_mut(*i, x),
                    Ar::Mul => c.mul_element_mut(*i, x),
                    Ar::Div => c.div_element_mut(*i, x),
                }
                BVal::V(c)
            }
            Op::VSet(a, i, x) => {
                let mut c = v[*a].clone();
                c.set(*i, t(*x));
                BVal::V(c)
            }
            Op::VDot(a, b) => BVal::S(v[*a].dot(&v[*b])),
            Op::VNorm2(a) => BVal::S(v[*a].norm2()),
            Op::VNorm(a, p) => BVal::S(v[*a].norm(t(*p))),
            Op::VSum(a) => BVal::S(v[*a].sum()),
            Op::VMean(a) => BVal::S(v[*a].mean()),
            Op::VVar(a) => BVal::S(v[*a].var()),
            Op::VStd(a) => BVal::S(v[*a].std()),
            Op::VUnique(a) => BVal::PV(v[*a].unique()),
            Op::VTake(a, idx) => BVal::V(v[*a].take(idx)),
            Op::VApproxEq(a, b, err) => BVal::B(v[*a].approximate_eq(&v[*b], t(*err))),
            Op::VCopyFrom(a, b) => {
                let mut c = v[*a].clone();
                c.copy_from(&v[*b]);
                BVal::V(c)
            }
            Op::VFill(n, x) => {
                let c = <M::RowVector as BaseVector<T>>::fill(*n, t(*x));
                BVal::V(c)
            }
            Op::VLen(a) => BVal::I(vec![v[*a].len()]),
            Op::VZeros(n) => BVal::V(<M::RowVector as BaseVector<T>>::zeros(*n)),
            Op::VOnes(n) => BVal::V(<M::RowVector as BaseVector<T>>::ones(*n)),
            Op::VPerturbedApproxEq(a, i, delta, err) => {
                let mut b = v[*a].clone();
                b.set(*i, t(f(v[*a].get(*i)) + *delta));
                BVal::B(v[*a].approximate_eq(&b, t(*err)))
            }
        };
        (out, note)
    })
}

/// Compares an observed value against the model. Returns Err(detail) on mismatch.
pub fn compare(obs: &Val, exp: &MOut, epsw: f64, tiny: f64) -> Result<f64, String> {
    // returns the worst observed/threshold ratio
    let mut worst = 0.0f64;
    let mut cmp_num = |o: f64, e: f64, sc: f64, k: f64, what: &str, idx: usize| -> Result<(), String> {
        if o == e {
            return Ok(());
        }
        if sc == 0.0 || k == 0.0 {
            if o.is_nan() && e.is_nan() {
                return Ok(());
            }
            return Err(format!("{}[{}]: observed {:e}, expected exactly {:e}", what, idx, o, e));
        }
        let thr = 8.0 * k * epsw * sc + tiny;
        let d = (o - e).abs();
        if !(d <= thr) {
            return Err(format!("{}[{}]: observed {:e}, expected {:e} (|diff| {:e} > threshold {:e})", what, idx, o, e, d, thr));
        }
        worst = worst.max(d / thr);
        Ok(())
    };
    match exp {
        MOut::Val(ev, sc, k) => match (obs, ev) {
            (Val::M(o), Val::M(e)) => {
                if (o.r, o.c) != (e.r, e.c) {
                    return Err(format!("shape {}x{} expected {}x{}", o.r, o.c, e.r, e.c));
                }
                for i in 0..e.d.len() {
                    cmp_num(o.d[i], e.d[i], sc[i], *k, "entry", i)?;
                }
            }
            (Val::V(o), Val::V(e)) => {
                if o.len() != e.len() {
                    return Err(format!("length {} expected {}", o.len(), e.len()));
                }
                for i in 0..e.len() {
                    cmp_num(o[i], e[i], sc[i], *k, "element", i)?;
                }
            }
            (Val::S(o), Val::S(e)) => cmp_num(*o, *e, sc[0], *k, "scalar", 0)?,
            (Val::B(o), Val::B(e)) => {
                if o != e {
                    return Err(format!("observed {}, expected {}", o, e));
                }
            }
            (Val::I(o), Val::I(e)) => {
                if o != e {
                    return Err(format!("observed {:?}, expected {:?}", o, e));
                }
            }
            _ => return Err("result kind differs from the model".to_string()),
        },
        MOut::Special(Special::SpreadRel { reference, floor, is_std }) => {
            let tolv = if epsw > 1e-10 { 1e-2 } else { 1e-6 };
            let o: Vec<f64> = match obs {
                Val::V(o) => o.clone(),
                Val::S(s) => vec![*s],
                _ => return Err("result kind differs from the model".to_string()),
            };
            if o.len() != reference.len() {
                return Err(format!("length {} expected {}", o.len(), reference.len()));
            }
            for i in 0..o.len() {
                // squares of deviations below the smallest normal number of the width are rounding garbage
                let minw = if epsw > 1e-10 { f32::MIN_POSITIVE as f64 } else { f64::MIN_POSITIVE };
                let (e, thr) = if *is_std { (reference[i].sqrt(), tolv * reference[i].sqrt() + floor[i].sqrt() + minw.sqrt()) } else { (reference[i], tolv * reference[i] + floor[i] + minw) };
                let d = (o[i] - e).abs();
                if !(d <= thr + tiny) {
                    return Err(format!("{}[{}]: observed {:e}, spread-based reference {:e} (|diff| {:e} > {:e})", if *is_std { "std" } else { "var" }, i, o[i], e, d, thr));
                }
                worst = worst.max(d / (thr + tiny));
            }
        }
        MOut::Special(Special::ArgmaxOneOf(sets)) => match obs {
            Val::I(o) => {
                if o.len() != sets.len() {
                    return Err(format!("argmax length {} expected {}", o.len(), sets.len()));
                }
                for i in 0..o.len() {
                    if !sets[i].contains(&o[i]) {
                        return Err(format!("argmax row {}: observed {}, maximal positions {:?}", i, o[i], sets[i]));
                    }
                }
            }
            _ => return Err("result kind differs from the model".to_string()),
        },
        MOut::Special(Special::Softmax { reference, scale }) => match obs {
            Val::M(o) => {
                if (o.r, o.c) != (reference.r, reference.c) {
                    return Err(format!("shape {}x{} expected {}x{}", o.r, o.c, reference.r, reference.c));
                }
                if !o.d.iter().all(|x| x.is_finite() && *x >= 0.0 && *x <= 1.0) {
                    return Err(format!("softmax output is not a probability vector (entries finite in [0,1]): {:?}", o.d));
                }
                let s = csum(o.d.iter().cloned());
                let n = o.d.len() as f64;
                if !((s - 1.0).abs() <= 8.0 * (n + 4.0) * epsw) {
                    return Err(format!("softmax output sums to {:e}", s));
                }
                for i in 0..o.d.len() {
                    cmp_num(o.d[i], reference.d[i], scale[i], 2.0, "softmax", i)?;
                }
            }
            _ => return Err("result kind differs from the model".to_string()),
        },
        MOut::Reject | MOut::Unspecified(_) => {}
    }
    Ok(worst)
}

// ------------------------------------------------------------------------------------------------
// program generation

pub const VALUE_KINDS: [&str; 9] = ["small-int", "normal", "all-negative", "all-positive", "all-equal", "large", "offset", "mixed-magnitude", "zero-one"];

pub fn draw_values(rng: &mut Rng, n: usize, kind: &str, f32w: bool) -> Vec<f64> {
    let big = if f32w { 1e15 } else { 1e150 };
    let off = if f32w { rng.logu(1.0, 1e3) } else { rng.logu(1.0, 1e8) };
    let c = rng.normal();
    let sgn = if rng.bool(0.5) { 1.0 } else { -1.0 };
    let raw: Vec<f64> = (0..n)
        .map(|_| match kind {
            "small-int" => rng.int(-5, 5) as f64,
            "normal" => rng.normal(),
            "all-negative" => -rng.logu(1e-2, 1e3),
            "all-positive" => rng.logu(1e-2, 1e3),
            "all-equal" => c * 3.0,
            "large" => rng.normal() * big,
            "offset" => sgn * off + rng.normal(),
            "mixed-magnitude" => rng.normal() * 10f64.powi(rng.int(-8, 8) as i32),
            _ => rng.int(0, 1) as f64,
        })
        .collect();
    if f32w {
        raw.iter().map(|x| *x as f32 as f64).collect()
    } else {
        raw
    }
}

/// entries a `copy_*_as_vec` receiver is longer than the row / column it receives (0, 1 or 3), and what they hold
pub const RECEIVER_FILL: f64 = 7.5;
pub fn receiver_extra(reg: usize, i: usize) -> usize {
    [0, 1, 3][(reg + i) % 3]
}

pub fn draw_regs(rng: &mut Rng, max_dim: usize, f32w: bool) -> (Regs, Vec<String>) {
    let nm = rng.us(2, 4);
    let nv = rng.us(2, 3);
    let mut kinds = Vec::new();
    let mut m = Vec::new();
    // correlated shapes so that compatible pairs are common
    let mut d = [rng.us(1, max_dim), rng.us(1, max_dim), rng.us(1, max_dim)];
    // the large programs also hold long thin operands (more than 1024 entries in a single row or column)
    if max_dim > 40 && rng.bool(0.35) {
        d[2] = rng.us(1025, 1500);
    }
    for _ in 0..nm {
        let (r, c) = match rng.below(8) {
            0 => (1, *rng.pick(&d)),
            1 => (*rng.pick(&d), 1),
            2 => (1, 1),
            _ => (*rng.pick(&d), *rng.pick(&d)),
        };
        let (r, c) = if r * c > 6000 { (r, c.min(3)) } else { (r, c) };
        let kind = *rng.pick(&VALUE_KINDS);
        kinds.push(kind.to_string());
        m.push(Mat { r, c, d: draw_values(rng, r * c, kind, f32w) });
    }
    let mut v = Vec::new();
    for _ in 0..nv {
        let n = if rng.bool(0.7) { *rng.pick(&d) } else { rng.us(1, max_dim) };
        let kind = *rng.pick(&VALUE_KINDS);
        kinds.push(kind.to_string());
        v.push(draw_values(rng, n, kind, f32w));
    }
    (Regs { m, v }, kinds)
}

fn pick_ar(rng: &mut Rng) -> Ar {
    *rng.pick(&[Ar::Add, Ar::Sub, Ar::Mul, Ar::Div])
}

fn scalar(rng: &mut Rng) -> f64 {
    match rng.below(5) {
        0 => rng.int(-4, 4) as f64,
        1 => 2f64.powi(rng.int(-6, 6) as i32),
        2 => -rng.logu(1e-3, 1e3),
        _ => rng.normal() * 3.0,
    }
}

/// index of a matrix register satisfying `pred`, else any
fn find_m(rng: &mut Rng, r: &Regs, pred: impl Fn(&Mat) -> bool) -> Option<usize> {
    let c: Vec<usize> = (0..r.m.len()).filter(|&i| pred(&r.m[i])).collect();
    if c.is_empty() {
        None
    } else {
        Some(*rng.pick(&c))
    }
}

/// Draws the next op given the current model registers. `hostile` raises the share of deliberately
/// incompatible operand pairs.
/// norm orders: small integers, the two infinities, fractional orders, and orders a hair away from an integer
/// (k·(1 ± 1e-9..1e-7): "integral order" shortcuts must not round them)
fn draw_norm_order(rng: &mut Rng) -> f64 {
    match rng.below(10) {
        0..=4 => *rng.pick(&[1.0, 2.0, 3.0, 4.0]),
        5 => f64::INFINITY,
        6 => f64::NEG_INFINITY,
        7 => *rng.pick(&[0.5, 1.5, 2.5, 3.25]),
        _ => {
            let k = *rng.pick(&[1.0, 2.0, 3.0, 4.0]);
            k * (1.0 + rng.logu(1e-9, 1e-7) * if rng.bool(0.5) { 1.0 } else { -1.0 })
        }
    }
}

/// index lists that look like something simpler than they are: the identity with a permuted or repeated interior,
/// an ascending run with one foreign entry, the reversal, a rotation, the full range twice
fn structured_indices(rng: &mut Rng, lim: usize) -> Vec<usize> {
    let mut v: Vec<usize> = (0..lim).collect();
    match rng.below(6) {
        0 => {
            // end points in place, interior permuted or repeated
            if lim >= 4 {
                let (i, j) = (rng.us(1, lim - 2), rng.us(1, lim - 2));
                if rng.bool(0.5) {
                    v.swap(i, j);
                } else {
                    v[i] = v[j];
                }
            }
        }
        1 => {
            // a run with one foreign entry somewhere
            let i = rng.below(lim);
            v[i] = rng.below(lim);
        }
        2 => v.reverse(),
        3 => v.rotate_left(rng.below(lim)),
        4 => {
            let w = v.clone();
            v.extend(w);
        }
        _ => {
            // a run that starts somewhere inside, continued after a gap
            let s = rng.below(lim);
            v = (s..lim).collect();
            v.push(rng.below(lim));
            v.extend(0..s);
        }
    }
    v
}

pub fn draw_op(rng: &mut Rng, r: &Regs, f32w: bool) -> Op {
    let nm = r.m.len();
    let nv = r.v.len();
    let a = rng.below(nm);
    let ma = &r.m[a];
    let want_compat = rng.bool(0.9);
    let same_shape = |rng: &mut Rng| -> usize {
        if want_compat {
            find_m(rng, r, |x| (x.r, x.c) == (ma.r, ma.c)).unwrap_or(a)
        } else {
            rng.below(nm)
        }
    };
    let u = rng.below(nv);
    let same_len = |rng: &mut Rng| -> usize {
        if want_compat {
            let c: Vec<usize> = (0..nv).filter(|&i| r.v[i].len() == r.v[u].len()).collect();
            *rng.pick(&c)
        } else {
            rng.below(nv)
        }
    };
    let f32f = |x: f64| if f32w { x as f32 as f64 } else { x };
    match rng.below(66) {
        0 | 1 => Op::Transpose(a),
        2 | 3 => {
            let b = if want_compat { find_m(rng, r, |x| x.r == ma.c).unwrap_or_else(|| rng.below(nm)) } else { rng.below(nm) };
            Op::Matmul(a, b)
        }
        4 | 5 | 6 => {
            let at = rng.bool(0.5);
            let bt = rng.bool(0.5);
            let inner = if at { ma.r } else { ma.c };
            let b = if want_compat { find_m(rng, r, |x| (if bt { x.c } else { x.r }) == inner).unwrap_or_else(|| rng.below(nm)) } else { rng.below(nm) };
            Op::Ab(a, at, b, bt)
        }
        7 => {
            let b = if want_compat { find_m(rng, r, |x| x.r == ma.r).unwrap_or(a) } else { rng.below(nm) };
            Op::HStack(a, b)
        }
        8 => {
            let b = if want_compat { find_m(rng, r, |x| x.c == ma.c).unwrap_or(a) } else { rng.below(nm) };
            Op::VStack(a, b)
        }
        9 | 10 => {
            let r0 = rng.below(ma.r);
            let r1 = rng.us(r0 + 1, ma.r);
            let c0 = rng.below(ma.c);
            let c1 = rng.us(c0 + 1, ma.c);
            Op::Slice(a, r0, r1, c0, c1)
        }
        11 | 12 | 13 => {
            let n = ma.r * ma.c;
            if want_compat {
                let divs: Vec<usize> = (1..=n).filter(|k| n % k == 0).collect();
                let rr = *rng.pick(&divs);
                Op::Reshape(a, rr, n / rr)
            } else {
                Op::Reshape(a, rng.us(1, 6), rng.us(1, 6))
            }
        }
        14 | 15 => {
            let axis = rng.below(2) as u8;
            let lim = if axis == 0 { ma.r } else { ma.c };
            let k = rng.us(1, lim + 2);
            Op::Take(a, if rng.bool(0.4) { structured_indices(rng, lim) } else { (0..k).map(|_| rng.below(lim)).collect() }, axis)
        }
        16 => Op::FromRowVector(u),
        17 => match rng.below(4) {
            0 => Op::Eye(rng.us(1, 6)),
            1 => Op::Fill(rng.us(1, 5), rng.us(1, 5), f32f(scalar(rng))),
            2 => Op::Zeros(rng.us(1, 5), rng.us(1, 5)),
            _ => Op::Ones(rng.us(1, 5), rng.us(1, 5)),
        },
        18 | 19 | 20 => Op::Bin(pick_ar(rng), a, same_shape(rng)),
        21 | 22 => Op::Scalar(pick_ar(rng), a, f32f(scalar(rng))),
        23 => Op::ElemMut(pick_ar(rng), a, rng.below(ma.r), rng.below(ma.c), f32f(scalar(rng))),
        24 => Op::Set(a, rng.below(ma.r), rng.below(ma.c), f32f(scalar(rng))),
        25 => Op::Negative(a),
        26 => Op::Abs(a),
        27 => {
            let allpos = ma.d.iter().all(|x| *x > 0.0);
            Op::Pow(a, if allpos && rng.bool(0.4) { 0.5 } else { *rng.pick(&[2.0, 3.0]) })
        }
        28 => {
            let thr = if rng.bool(0.5) { *rng.pick(&ma.d) } else { f32f(scalar(rng)) };
            Op::Binarize(a, thr)
        }
        29 | 30 => Op::Softmax(a),
        31 => {
            let axis = rng.below(2) as u8;
            let (groups, len) = if axis == 0 { (ma.c, ma.r) } else { (ma.r, ma.c) };
            let mut means = vec![0.0; groups];
            let mut stds = vec![1.0; groups];
            let reference = rng.bool(0.7);
            for g in 0..groups {
                let xs: Vec<f64> = (0..len).map(|i| if axis == 0 { ma.at(i, g) } else { ma.at(g, i) }).collect();
                if reference {
                    means[g] = f32f(mean_v(&xs));
                    let sd = f32f(var_pop(&xs).max(0.0).sqrt());
                    stds[g] = if sd > 0.0 && sd.is_finite() { sd } else { 1.0 };
                    if !means[g].is_finite() {
                        means[g] = 0.0;
                    }
                } else {
                    means[g] = f32f(scalar(rng));
                    stds[g] = f32f(rng.logu(1e-2, 1e2));
                }
            }
            // a divisor of exactly zero (what std() reports for a constant lane or a single row): the value is
            // left open by the model, but every backend has to treat such a lane the same way
            if rng.bool(0.12) {
                let g = rng.below(groups);
                stds[g] = 0.0;
                if rng.bool(0.5) {
                    means[g] = if axis == 0 { ma.at(0, g) } else { ma.at(g, 0) };
                }
            }
            Op::Scale(a, axis, means, stds)
        }
        32 => Op::Cov(a),
        33 => Op::CopyFrom(a, same_shape(rng)),
        34 | 35 => Op::ToRowVector(a),
        36 => Op::GetRow(a, rng.below(ma.r)),
        37 => {
            if rng.bool(0.5) {
                Op::GetRowAsVec(a, rng.below(ma.r))
            } else {
                Op::CopyRowAsVec(a, rng.below(ma.r))
            }
        }
        38 => {
            if rng.bool(0.5) {
                Op::GetColAsVec(a, rng.below(ma.c))
            } else {
                Op::CopyColAsVec(a, rng.below(ma.c))
            }
        }
        39 => Op::ColumnMean(a),
        40 => Op::Mean(a, rng.below(2) as u8),
        41 | 42 => Op::Var(a, rng.below(2) as u8),
        43 => Op::Std(a, rng.below(2) as u8),
        44 => Op::Unique(a),
        45 => Op::Get(a, rng.below(ma.r), rng.below(ma.c)),
        46 | 47 => {
            let b = if want_compat { find_m(rng, r, |x| x.d.len() == ma.d.len() && (x.r == 1 || x.c == 1)).unwrap_or_else(|| rng.below(nm)) } else { rng.below(nm) };
            Op::Dot(a, b)
        }
        48 => Op::Norm2(a),
        49 => Op::Norm(a, f32f(draw_norm_order(rng))),
        50 => Op::Sum(a),
        51 => Op::Min(a),
        52 => Op::Max(a),
        53 => Op::MaxDiff(a, same_shape(rng)),
        54 => Op::Eq(a, if rng.bool(0.4) { a } else { same_shape(rng) }),
        55 => Op::ApproxEq(a, same_shape(rng), rng.logu(1e-9, 10.0)),
        56 => Op::Argmax(a),
        57 => match rng.below(3) {
            0 => Op::VBin(pick_ar(rng), u, same_len(rng)),
            1 => Op::VScalar(pick_ar(rng), u, f32f(scalar(rng))),
            _ => Op::VElemMut(pick_ar(rng), u, rng.below(r.v[u].len()), f32f(scalar(rng))),
        },
        58 => match rng.below(3) {
            0 => Op::VDot(u, same_len(rng)),
            1 => Op::VNorm2(u),
            _ => Op::VNorm(u, f32f(draw_norm_order(rng))),
        },
        59 => match rng.below(3) {
            0 => Op::VSum(u),
            1 => Op::VMean(u),
            _ => Op::VUnique(u),
        },
        60 => {
            if rng.bool(0.5) {
                Op::VVar(u)
            } else {
                Op::VStd(u)
            }
        }
        61 => {
            let k = rng.us(1, r.v[u].len() + 2);
            Op::VTake(u, if rng.bool(0.4) { structured_indices(rng, r.v[u].len()) } else { (0..k).map(|_| rng.below(r.v[u].len())).collect() })
        }
        62 => match rng.below(3) {
            0 => Op::VApproxEq(u, same_len(rng), rng.logu(1e-9, 10.0)),
            1 => Op::VCopyFrom(u, same_len(rng)),
            _ => Op::VSet(u, rng.below(r.v[u].len()), f32f(scalar(rng))),
        },
        _ => {
            let (i, j) = (rng.below(ma.r), rng.below(ma.c));
            let x = ma.at(i, j);
            // a perturbation that is exactly representable next to x in both widths
            let base = 2f64.powi((x.abs().max(1e-30)).log2().floor() as i32);
            let delta = match rng.below(4) {
                0 => 0.0,
                1 => base * 2f64.powi(-(rng.int(1, 8) as i32)),
                2 => -base * 2f64.powi(-(rng.int(1, 8) as i32)),
                _ => base * (rng.int(1, 4) as f64),
            };
            match rng.below(10) {
                0 => Op::VFill(rng.us(1, 6), f32f(scalar(rng))),
                1 => Op::VLen(u),
                2 => Op::Shape(a),
                3 => Op::VZeros(rng.us(1, 6)),
                4 => Op::VOnes(rng.us(1, 6)),
                5 | 6 => Op::PerturbedEq(a, i, j, delta),
                7 => Op::PerturbedApproxEq(a, i, j, delta, base * 2f64.powi(rng.int(-10, 3) as i32)),
                8 => match rng.below(3) {
                    0 => Op::PerturbedMaxDiff(a, i, j, delta),
                    1 => Op::EqReshaped(a),
                    _ => Op::ApproxEqReshaped(a, rng.logu(1e-9, 10.0)),
                },
                _ => {
                    let k = rng.below(r.v[u].len());
                    let xv = r.v[u][k];
                    let bv = 2f64.powi((xv.abs().max(1e-30)).log2().floor() as i32);
                    Op::VPerturbedApproxEq(u, k, if rng.bool(0.3) { 0.0 } else { bv * 2f64.powi(-(rng.int(1, 8) as i32)) }, bv * 2f64.powi(rng.int(-10, 3) as i32))
                }
            }
        }
    }
}

/// Stores a result into the model registers (round-robin overwrite keeps the file small).
pub fn store(r: &mut Regs, val: &Val, slot: usize) {
    match val {
        Val::M(m) => {
            if r.m.len() < 6 {
                r.m.push(m.clone());
            } else {
                let k = slot % r.m.len();
                r.m[k] = m.clone();
            }
        }
        Val::V(v) => {
            if v.is_empty() {
                return;
            }
            if r.v.len() < 5 {
                r.v.push(v.clone());
            } else {
                let k = slot % r.v.len();
                r.v[k] = v.clone();
            }
        }
        _ => {}
    }
}

/// Mirrors `store` for a backend register file; afterwards overwrites the stored object's entries
/// with the model's values through `set` (keeps the object's memory layout, makes the data identical).
pub fn store_backend<T: RealNumber, M: Matrix<T>>(r: &mut BackendRegs<T, M>, val: BVal<T, M>, model_val: &Val, slot: usize) {
    match (val, model_val) {
        (BVal::M(mut m), Val::M(mv)) => {
            if m.shape() == (mv.r, mv.c) {
                for i in 0..mv.r {
                    for j in 0..mv.c {
                        m.set(i, j, t(mv.at(i, j)));
                    }
                }
            } else {
                m = crate::to_m::<T, M>(mv);
            }
            if r.m.len() < 6 {
                r.m.push(m);
            } else {
                let k = slot % r.m.len();
                r.m[k] = m;
            }
        }
        (BVal::V(mut v), Val::V(vv)) => {
            if vv.is_empty() {
                return;
            }
            if v.len() == vv.len() {
                for i in 0..vv.len() {
                    v.set(i, t(vv[i]));
                }
            } else {
                v = M::RowVector::from_array(&tv::<T>(vv));
            }
            if r.v.len() < 5 {
                r.v.push(v);
            } else {
                let k = slot % r.v.len();
                r.v[k] = v;
            }
        }
        (BVal::PV(_), Val::V(vv)) => {
            if vv.is_empty() {
                return;
            }
            let v = M::RowVector::from_array(&tv::<T>(vv));
            if r.v.len() < 5 {
                r.v.push(v);
            } else {
                let k = slot % r.v.len();
                r.v[k] = v;
            }
        }
        _ => {}
    }
}
