//! scverif — runtime monitors for smartcore (see /verif/DESIGN.md)
pub mod apipaths;
pub mod builders;
pub mod gen;
pub mod matprog;
pub mod refla;
pub mod rng;
pub mod runner;

pub use refla::Mat;
pub use rng::Rng;
pub use runner::{guard, Case, Family, PanicInfo, Spec, Tier};
pub use serde_json::{json, Value};

use smartcore::linalg::naive::dense_matrix::DenseMatrix;
use smartcore::linalg::BaseMatrix;
use smartcore::math::num::RealNumber;

/// f64 -> T (rounding for f32)
pub fn t<T: RealNumber>(x: f64) -> T {
    T::from_f64(x).unwrap()
}

pub fn f<T: RealNumber>(x: T) -> f64 {
    x.to_f64().unwrap()
}

/// Builds any backend matrix from the reference matrix through the public `zeros` + `set` API.
pub fn to_m<T: RealNumber, M: BaseMatrix<T>>(m: &Mat) -> M {
    let mut r = M::zeros(m.r, m.c);
    for i in 0..m.r {
        for j in 0..m.c {
            r.set(i, j, t(m.at(i, j)));
        }
    }
    r
}

/// DenseMatrix from row-major data through its own constructor
pub fn to_dense<T: RealNumber>(m: &Mat) -> DenseMatrix<T> {
    let v: Vec<T> = m.d.iter().map(|x| t::<T>(*x)).collect();
    DenseMatrix::from_array(m.r, m.c, &v)
}

/// Reads any backend matrix back through `shape` + `get`.
pub fn from_m<T: RealNumber, M: BaseMatrix<T>>(m: &M) -> Mat {
    let (r, c) = m.shape();
    Mat::from_fn(r, c, |i, j| f(m.get(i, j)))
}

pub fn tv<T: RealNumber>(v: &[f64]) -> Vec<T> {
    v.iter().map(|x| t::<T>(*x)).collect()
}

pub fn fv<T: RealNumber>(v: &[T]) -> Vec<f64> {
    v.iter().map(|x| f(*x)).collect()
}

pub fn eps<T: RealNumber>() -> f64 {
    f(T::epsilon())
}

pub fn width<T: RealNumber>() -> &'static str {
    if std::mem::size_of::<T>() == 4 {
        "f32"
    } else {
        "f64"
    }
}

/// compact JSON of a matrix for samples / replay files
pub fn mat_json(m: &Mat) -> Value {
    json!({"rows": m.r, "cols": m.c, "row_major": m.d})
}

/// relative closeness |a-b| <= tol*max(scale, tiny)
pub fn close(a: f64, b: f64, tol: f64, scale: f64) -> bool {
    if a == b {
        return true;
    }
    if !a.is_finite() || !b.is_finite() {
        return false;
    }
    (a - b).abs() <= tol * scale
}

/// prediction through the uniform `api::Predictor` trait (generic code path) instead of the inherent method
pub fn trait_predict<X, Y, E: smartcore::api::Predictor<X, Y>>(e: &E, x: &X) -> Result<Y, smartcore::error::Failed> {
    smartcore::api::Predictor::predict(e, x)
}

/// fit through the uniform `api::SupervisedEstimator` trait
pub fn trait_fit<X, Y, P: Clone, E: smartcore::api::SupervisedEstimator<X, Y, P>>(x: &X, y: &Y, p: P) -> Result<E, smartcore::error::Failed> {
    <E as smartcore::api::SupervisedEstimator<X, Y, P>>::fit(x, y, p)
}

/// float widths that can also be serialised (for "fit, store, restore, then use" call sequences)
pub trait SNum: RealNumber + serde::Serialize + serde::de::DeserializeOwned + Default + 'static {}
impl SNum for f32 {}
impl SNum for f64 {}

/// a copy of `m` that went through a serialisation round trip (bincode, or JSON text)
pub fn restored<M: serde::Serialize + serde::de::DeserializeOwned>(m: &M, json: bool) -> Result<M, String> {
    if json {
        let s = serde_json::to_string(m).map_err(|e| format!("serde_json::to_string: {}", e))?;
        serde_json::from_str(&s).map_err(|e| format!("serde_json::from_str: {}", e))
    } else {
        let b = bincode::serialize(m).map_err(|e| format!("bincode::serialize: {}", e))?;
        bincode::deserialize(&b).map_err(|e| format!("bincode::deserialize: {}", e))
    }
}

/// Call sequences every predictor has to survive (drawn for a share of the cases):
///  * fit → store → restore → predict: the restored copy predicts exactly what the fitted object predicts;
///  * predict on a reordered batch with repeated rows: the output for a row depends on that row only.
/// `preds` are the outputs of `run(model, q)` already obtained (one per row of `q`).
pub fn sequence_checks<T: SNum, M: serde::Serialize + serde::de::DeserializeOwned>(
    c: &mut runner::Case,
    name: &str,
    sg: &str,
    model: &M,
    q: &DenseMatrix<T>,
    preds: &[f64],
    run: impl Fn(&M, &DenseMatrix<T>) -> Result<Vec<T>, smartcore::error::Failed>,
) {
    let same = |a: &[f64], b: &[f64]| a.len() == b.len() && a.iter().zip(b.iter()).all(|(x, y)| x == y || (x.is_nan() && y.is_nan()));
    if c.rng.bool(0.25) {
        let json = c.rng.bool(0.5);
        let fmt = if json { "json-value" } else { "bincode" };
        c.bucket(&format!("sequence:fit-store-restore-predict/{}", fmt));
        let back: Option<Result<M, String>> = c.must(&format!("{}.restore", name), || {
            if json {
                serde_json::to_value(model).and_then(serde_json::from_value).map_err(|e| format!("serde_json value round trip: {}", e))
            } else {
                restored(model, false)
            }
        });
        match back {
            Some(Ok(m2)) => match c.must(&format!("{}.predict(restored)", name), || run(&m2, q)) {
                Some(Ok(o2)) => {
                    let o2 = fv(&o2);
                    c.check(&format!("{}.restored.predict/{}", name, fmt), same(preds, &o2), sg, || format!("fitted model predicts {:?}, its restored copy {:?}", preds, o2));
                }
                Some(Err(e)) => {
                    c.check(&format!("{}.restored.predict/{}", name, fmt), false, sg, || format!("the restored copy returned Err({})", e));
                }
                None => {}
            },
            Some(Err(msg)) => {
                c.check(&format!("{}.restorable/{}", name, fmt), false, sg, || msg.clone());
            }
            None => {}
        }
    }
    let (nq, p) = q.shape();
    if nq >= 1 && preds.len() == nq && c.rng.bool(0.25) {
        c.bucket("sequence:predict-on-reordered-batch");
        let mut order: Vec<usize> = (0..nq).rev().collect();
        order.push(c.rng.below(nq));
        order.push(c.rng.below(nq));
        let mut q2 = DenseMatrix::<T>::zeros(order.len(), p);
        for (i, src) in order.iter().enumerate() {
            for j in 0..p {
                q2.set(i, j, q.get(*src, j));
            }
        }
        if let Some(Ok(o2)) = c.must(&format!("{}.predict(reordered batch)", name), || run(model, &q2)) {
            let o2 = fv(&o2);
            let ok = o2.len() == order.len() && order.iter().enumerate().all(|(i, src)| same(&preds[*src..*src + 1], &o2[i..i + 1]));
            c.check(&format!("{}.row-output-independent-of-batch", name), ok, sg, || format!("rows {:?} of the query batch give {:?}; the batch itself gave {:?}", order, o2, preds));
        }
    }
}

// ------------------------------------------------------------------------------------ scale of use
thread_local! {
    static BIG: std::cell::Cell<u32> = std::cell::Cell::new(0);
}

/// 0: the monitor's ordinary size distribution; > 0: the `*_large` families are running and the size draws of the
/// monitor move to "scale of use" sizes (thousands of rows, hundreds of columns / classes / clusters)
pub fn big() -> u32 {
    BIG.with(|b| b.get())
}

/// runs `f` with the scale level set (reset afterwards, also when `f` unwinds)
pub fn with_big<R>(level: u32, f: impl FnOnce() -> R) -> R {
    struct Reset(u32);
    impl Drop for Reset {
        fn drop(&mut self) {
            BIG.with(|b| b.set(self.0));
        }
    }
    let _r = Reset(big());
    BIG.with(|b| b.set(level));
    f()
}

/// Parameter objects are handed to `fit` either as built (even case index) or as a clone of the built object (odd case
/// index): a user who fits several models from one parameter object (folds, grids) passes clones.
pub fn reused<P: Clone>(index: u64, p: P) -> P {
    if index % 2 == 1 {
        #[allow(clippy::redundant_clone)]
        let q = p.clone();
        drop(p);
        q
    } else {
        p
    }
}
