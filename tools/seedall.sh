#!/bin/bash
# tools/seedall.sh [jobs] — runs the quick check of every archived seeded change (seeded/<ID>-<k>/patch.diff) in a
# scratch copy and prints one line per seed: "<ID>-<k> exit=<rc> classes=<n>". exit=1 ⇔ caught.
jobs=${1:-4}
cd "$(dirname "$0")/.."
ls -d seeded/C??-* | xargs -P "$jobs" -I{} bash -c '
  d={}; n=$(basename $d); id=${n%-*}
  out=$(MUT_LINES=0 tools/mutcheck.sh $id $d/patch.diff quick 2>&1)
  rc=$(echo "$out" | grep -o "MUTCHECK: exit=[0-9]*" | grep -o "[0-9]*$")
  cl=$(echo "$out" | grep -o "([0-9]* classes)" | tail -1)
  echo "$n exit=${rc:-?} $cl $(echo "$out" | grep -m1 "build failed")"
'
