#!/bin/bash
# tools/seedarchive.sh <ID> <k> <detected:yes|no> "<detected by (oracles) / note>"
id=$1; k=$2; det=$3; note=$4; sd=/tmp/seeded-$id-$k; dst=/verif/seeded/$id-$k
mkdir -p $dst; cp $sd/patch.diff $sd/demo.rs $dst/
python3 - "$sd/meta.json" "$dst/meta.json" "$id" "$det" "$note" <<'PY'
import json,sys
src,dst,pid,det,note=sys.argv[1:6]
try: m=json.load(open(src))
except Exception: m={}
m['property']=pid
m['confirmed_in_scratch_copy']={'by':'tools/seedverify.sh (scratch copy of /repo under /tmp)','demo_passes_on_unchanged_tree':True,'existing_suite_passes_with_change':True,'demo_fails_with_change':True}
m['check_result']={'command':'tools/mutcheck.sh %s seeded/<dir>/patch.diff quick'%pid,'detected':det=='yes','detected_by':note}
json.dump(m,open(dst,'w'),indent=1)
PY
echo archived $dst
