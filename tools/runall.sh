#!/bin/bash
# tools/runall.sh [quick|thorough] — run every claimed check once, report exit codes and wall time
tier=${1:-quick}
for id in $(python3 -c "import json;print(' '.join(c['property_id'] for c in json.load(open('/verif/MANIFEST.json'))['checks']))"); do
  t0=$(date +%s.%N); out=$(/verif/check $id $tier 2>&1); rc=$?; t1=$(date +%s.%N)
  printf "%s rc=%d %.1fs  %s\n" $id $rc $(echo "$t1-$t0" | bc) "$(echo "$out" | grep -c '^VIOLATION') violation-lines; $(echo "$out" | grep -c '^KNOWN-FINDING') known; $(echo "$out" | tail -1 | cut -c1-150)"
done
