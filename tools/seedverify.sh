#!/bin/bash
# tools/seedverify.sh <seeddir> — independently confirms a seeded change in a scratch copy of /repo:
#  (a) demo passes on the unchanged tree, (b) patch applies, (c) existing test suite passes with the patch,
#  (d) demo fails with the patch.   Sequential use only (fixed scratch dir, shared target dir).
set -u
sd="$(readlink -f "${1:?seed dir}")"
work=/tmp/sv-work
rm -rf "$work"; mkdir -p "$work"
(cd /repo && git ls-files -z | xargs -0 cp --parents -t "$work") || exit 2
cp /repo/Cargo.lock "$work/"
cd "$work" && git init -q . 
export CARGO_TARGET_DIR=/tmp/sv-target CARGO_NET_OFFLINE=true
mkdir -p tests; cp "$sd/demo.rs" tests/demo.rs
feat="serde,ndarray-bindings,nalgebra-bindings,verif"
res() { echo "SEEDVERIFY $1"; }
if cargo test --offline --test demo --features "$feat" >"$work/demo0.log" 2>&1; then res "demo-on-unchanged: PASS"; a=1; else res "demo-on-unchanged: FAIL (see tail)"; tail -15 "$work/demo0.log"; a=0; fi
if git apply --whitespace=nowarn "$sd/patch.diff"; then res "patch-applies: yes"; else res "patch-applies: NO"; exit 3; fi
mv tests/demo.rs "$work/demo.rs.keep"
if cargo test --offline >"$work/suite.log" 2>&1; then res "existing-suite-with-patch: PASS ($(grep -c '\.\.\. ok' "$work/suite.log") ok)"; b=1; else res "existing-suite-with-patch: FAIL"; grep -E 'FAILED|failed|error' "$work/suite.log" | head -10; b=0; fi
mv "$work/demo.rs.keep" tests/demo.rs
if cargo build --offline --features "$feat" >"$work/build.log" 2>&1; then res "builds-with-all-features: yes"; else res "builds-with-all-features: NO"; grep -E '^error' -A6 "$work/build.log" | head -20; fi
if cargo test --offline --test demo --features "$feat" >"$work/demo1.log" 2>&1; then res "demo-with-patch: PASS (demo does not demonstrate the break)"; c=0; else res "demo-with-patch: FAIL (as required)"; grep -E 'panicked|assert' "$work/demo1.log" | head -4 | cut -c1-300; c=1; fi
if [ $a = 1 ] && [ $b = 1 ] && [ $c = 1 ]; then res "CONFIRMED"; rc=0; else res "NOT-CONFIRMED"; rc=1; fi
rm -rf "$work"
exit $rc
