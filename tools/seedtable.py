#!/usr/bin/env python3
"""tools/seedtable.py [k ...] — prints the DESIGN §8.6 table rows for seeded/<ID>-<k> (all k when none given)."""
import json, glob, os, sys, re
ks = set(sys.argv[1:])
def esc(s, n):
    s = re.sub(r'\s+', ' ', str(s)).replace('|', '/')
    return s[:n]
rows = []
for d in sorted(glob.glob(os.path.join(os.path.dirname(__file__), '..', 'seeded', 'C??-*'))):
    name = os.path.basename(d)
    if ks and name.split('-')[1] not in ks:
        continue
    try:
        m = json.load(open(os.path.join(d, 'meta.json')))
    except Exception:
        continue
    cr = m.get('check_result', {})
    rows.append('| %s | %s | %s | %s |' % (name, esc(m.get('summary', ''), 140), esc(m.get('needs_to_manifest', ''), 120), esc(cr.get('detected_by', ''), 200)))
print('\n'.join(rows))
