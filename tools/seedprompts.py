#!/usr/bin/env python3
"""tools/seedprompts.py <round> <k1> <k2> — writes /tmp/seedprompts/<ID>-r<round>.txt for every property: the text handed
to an independent sub-agent that is to produce two seeded changes (numbers k1, k2). The agent gets the property
text and the list of what was tried before — nothing about the verification machinery."""
import json, glob, os, sys
rnd, k1, k2 = sys.argv[1], sys.argv[2], sys.argv[3]
here = os.path.join(os.path.dirname(os.path.abspath(__file__)), '..')
os.makedirs('/tmp/seedprompts', exist_ok=True)
EXTRA = {
 '6': '''This is the SIXTH round: the obvious places and the obvious tricks have been used (see the long list above). Requirements for this round:
 * Change {k1} must be a QUIET LOSS OF ACCURACY, not a blatantly wrong value: after the change some input class inside the stated scope gets a result whose relative error is between about 1e-9 and 1e-3 (far above rounding error of the width, far below "obviously wrong") while everything else stays bit-identical or within rounding. Typical realistic sources: a reordered or pairwise-vs-naive summation that cancels for some inputs, an intermediate narrowed to f32 or to an integer, a mathematical constant or series truncated, an "equivalent" reformulation that subtracts nearly equal numbers, an iteration stopped one step early, a tolerance constant loosened for a "speed-up", a Horner / expm1 / ln_1p replacement used outside its safe range. State in meta.json the size of the error you measured and for which inputs.
 * Change {k2} must break a clause of the statement OTHER THAN THE HEADLINE ONE. Read the statement sentence by sentence and choose the clause you judge least likely to be checked: a secondary output or accessor, a rejection / error clause, a "for every kernel / metric / solver / criterion / backend" clause for the rarest variant, a reproducibility or symmetry or invariance clause, a clause about labels / indices / ordering of the output, a clause that only applies to a special case named in the statement. The headline behaviour must stay intact.
 * Classes already used in this code base and therefore probably watched — avoid them: builder (with_*) steps that reset other fields; api::Predictor / SupervisedEstimator trait wrappers that bypass the inherent method; absolute-epsilon thresholds at tiny scales; tie-breaking differences; expanded-norm distance formulas; serde attributes or (de)serialiser edits that only show after a serialise/deserialise round trip; state carried from one predicted row to the next; zero-sized matrices; an iteration limit of 1; swapped nrows/ncols in non-square cases; a `>`/`>=` flip in an argument-validation range check; fast paths / early exits keyed on all-zero, constant or "already sorted" inputs; copysign or sign tests at exactly zero; label fast paths assuming 0..k-1; keys narrowed to f32 or to an integer type for labels; quicksort pivot or stack policy; ndarray memory-layout assumptions; fast paths in take / matmul / dot; one-pass variance / covariance formulas at large offsets; shortcuts for a single feature / single row / k equal to n; p = -inf norms; polynomial kernels with negative bases or fractional degrees; u64::MAX seeds; products that under/overflow at extreme overall scales.''',
 '5': '''This is the FIFTH round: the obvious places and the obvious tricks have been used (see the long list above). Requirements for this round:
 * Change {k1} must be wrong ONLY at a boundary of the domain the property's scope states explicitly (read the "Scope of inputs" line): the smallest or largest admissible size (one row, one feature, two rows, k equal to n, one member in a class, n_trees = 1, depth 1, a single category, a single fold member ...), the end of a stated parameter range, the closed end of an interval, an exactly representable special value (0.0, -0.0, 1.0, an exact power of two, an exact tie) — through an edit that reads as harmless everywhere else. It must not be one of the classes listed as already tried or as watched.
 * Change {k2} must be wrong ONLY for a specific COMBINATION of two or more settings or input features that are each handled correctly on their own (an interaction): e.g. a non-default option together with a particular data class, two non-default options together, a particular dimension together with a particular sample count, a sign pattern together with a scale. Either setting alone must leave the demo passing — verify that.
 * Classes already used in this code base and therefore probably watched — avoid them: builder (with_*) steps that reset other fields; api::Predictor / SupervisedEstimator trait wrappers that bypass the inherent method; absolute-epsilon thresholds at tiny scales; tie-breaking differences; expanded-norm distance formulas; serde attributes or (de)serialiser edits that only show after a serialise/deserialise round trip; state carried from one predicted row to the next; zero-sized matrices; an iteration limit of 1; swapped nrows/ncols in non-square cases; a `>`/`>=` flip in an argument-validation range check; fast paths / early exits keyed on all-zero, constant or "already sorted" inputs; copysign or sign tests at exactly zero; label fast paths assuming 0..k-1; keys narrowed to f32 or to an integer type; quicksort pivot or stack policy; ndarray memory-layout assumptions (raw buffers, into_shape); fast paths in take / matmul / dot (panels, unrolling, run detection); one-pass variance / covariance formulas at large offsets.''',
 '4': '''This is the FOURTH round: the obvious places and the obvious tricks have been used. Requirements for this round:
 * Change {k1} must look like a realistic performance optimisation or clean-up refactoring (a cache or memo, an early exit, a fast path for a "common case", loop fusion, a pre-computed table, replacing a hand-written loop by an "equivalent" std/iterator/helper call, a changed iteration order, a narrower integer or float type, in-place instead of copy) that is correct for almost all inputs inside the property's scope but not for all of them. It must not be one of the classes listed as already tried.
 * Change {k2} must sit OUTSIDE the files the property is anchored in: in shared infrastructure the anchored code calls into (trait default methods in src/linalg/mod.rs, src/linalg/stats.rs, src/linalg/high_order.rs, the dense matrix, src/math/num.rs, src/math/vector.rs, src/algorithm/sort/*, src/math/distance/*, src/error, src/api.rs ...) such that THIS property breaks for some specific input class while the existing tests keep passing; or it must only manifest for a non-default instantiation the property's scope explicitly includes (f32, a non-default kernel / distance / solver / criterion / algorithm variant, a boundary size such as one row, one feature, one class-member, k equal to n).
 * Classes already used in this code base and therefore probably watched — avoid them: builder (with_*) steps that reset other fields; api::Predictor / SupervisedEstimator trait wrappers that bypass the inherent method; absolute-epsilon thresholds at tiny scales; tie-breaking differences; expanded-norm distance formulas; serde attributes or (de)serialiser edits that only show after a serialise/deserialise round trip; state carried from one predicted row to the next; zero-sized matrices; an iteration limit of 1; swapped nrows/ncols in non-square cases; a `>`/`>=` flip in an argument-validation range check.''',
}
for line in open(os.path.join(here, 'properties.jsonl')):
    p = json.loads(line)
    pid = p['id']
    tried = []
    for d in sorted(glob.glob(os.path.join(here, 'seeded', pid + '-*'))):
        try:
            m = json.load(open(os.path.join(d, 'meta.json')))
            tried.append('- ' + ' '.join(str(m.get('summary', '')).split())[:420])
        except Exception:
            pass
    wt = '/tmp/wt-%s' % pid
    txt = f'''You are stress-testing a verification setup for the Rust machine-learning crate "smartcore" by writing realistic, subtle bugs ("seeded changes") that break ONE stated property. You do not know how the verification works and must not look for it: never read or list anything under /verif, and work ONLY inside your own git worktree {wt} (a checkout of the crate; Cargo.lock is present; the sandbox is offline, so always use `cargo ... --offline`; use `export CARGO_TARGET_DIR={wt}/target`). Never touch /repo itself.

THE PROPERTY ({pid} — {p['title']}):
{p['statement']}

Scope of inputs it quantifies over: {p['quantifier']['text']}

Code it is anchored in: {', '.join(p['anchors']['files'])}

YOUR TASK: produce TWO independent changes (different mechanisms; different files/functions where possible) to the crate's library source (under src/, non-test code) such that for EACH change:
 1. the crate still compiles (also with `--features serde,ndarray-bindings,nalgebra-bindings,verif`) and the ENTIRE existing test suite still passes: `cargo test --offline` (161 unit tests + doc tests) — run it and confirm (a few tests of the suite are randomised and flake about once in a few hundred runs even on the unmodified crate; rerun once if one of those fails);
 2. the property above is genuinely broken for inputs inside its stated scope;
 3. the breakage needs something specific to manifest — a particular input class, an unusual shape/scale/parameter, a multi-step sequence, a particular random schedule, or two cooperating sites that each look fine alone — NOT something ordinary use would expose at once, and not a crash on every call. Small (1–8 changed lines) is best.
 4. you provide a demonstration: an integration test file (public API only; the cargo feature `verif` additionally exposes `smartcore::verif::*` — see src/verif.rs — if you need crate-private pieces) that FAILS with your change and PASSES without it. Verify both directions yourself (put it at tests/demo.rs in the worktree, run `cargo test --offline --test demo [--features ...]` with and without the change). Keep demo.rs short (at most ~120 lines).

DELIVERABLES, for k = {k1}, {k2}, in directory /tmp/seeded-{pid}-k/ :
  patch.diff  — `git diff` of the change against the worktree's HEAD (must apply cleanly with `git apply`)
  demo.rs     — the demonstration test file (plus a first-line comment with the exact cargo command/features needed to run it)
  meta.json   — {{"property": "{pid}", "summary": "...what was changed...", "needs_to_manifest": "...what specific input/schedule/sequence is needed...", "commands_run": ["..."], "existing_tests_pass": true, "demo_fails_with_change": true, "demo_passes_without_change": true}}
Never use `git stash` (the stash is shared by all worktrees of the repository and other people work in sibling worktrees): to toggle a change save it with `git diff > file` and use `git apply file` / `git apply -R file`. At the end leave the worktree clean (`git -C {wt} checkout -- . && git -C {wt} clean -fdq -e target`). Your final message: a short description of both changes and the verification you performed. Keep every single message you write short (never paste long generated content into a message; work in small steps). Do not weaken your changes to be "detectable"; make them as realistic and as hard to notice as you can while still clearly violating the property statement.

ALREADY TRIED by others for this property (do NOT repeat these or close variants):
{chr(10).join(tried)}

{EXTRA[rnd].format(k1=k1, k2=k2)}
'''
    open('/tmp/seedprompts/%s-r%s.txt' % (pid, rnd), 'w').write(txt)
print('written')
