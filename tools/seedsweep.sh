#!/bin/bash
# tools/seedsweep.sh <first> <last> [tier] — run every claimed check for VERIF_SEED=first..last, print only runs that are not clean
tier=${3:-quick}
for s in $(seq $1 $2); do
  for id in $(python3 -c "import json;print(' '.join(c['property_id'] for c in json.load(open('/verif/MANIFEST.json'))['checks']))"); do
    out=$(VERIF_SEED=$s /verif/check $id $tier 2>&1); rc=$?
    if [ $rc -ne 0 ]; then echo "seed=$s $id rc=$rc"; echo "$out" | grep -A2 '^VIOLATION\|^CHECK-BROKEN' | cut -c1-300 | head -12; fi
  done
  echo "seed $s done"
done
