#!/usr/bin/env python3
"""tools/seedround_archive.py <k> [<k> ...] — files the round's seeded changes (/tmp/seeded-<ID>-<k>) under seeded/ using the
logs written by tools/seedround.sh (/tmp/round-mut-<ID>-<k>.log; /tmp/round-mut2-<ID>-<k>.log = re-run after a monitor
was strengthened) and the notes in /tmp/round-notes.json: {"<ID>-<k>": {"missed": "...why...", "after": "...what was added..."}}."""
import subprocess, re, os, glob, sys, json
notes = json.load(open('/tmp/round-notes.json')) if os.path.exists('/tmp/round-notes.json') else {}
for k in sys.argv[1:]:
    for d in sorted(glob.glob('/tmp/seeded-C??-%s' % k)):
        n = os.path.basename(d).replace('seeded-', '')
        pid = n.split('-')[0]
        log2 = '/tmp/round-mut2-%s.log' % n
        log = log2 if os.path.exists(log2) else '/tmp/round-mut-%s.log' % n
        out = open(log).read()
        oracles = [(m.group(1), int(m.group(2))) for m in re.finditer(r'oracle=(\S+) signature=\S+ family=\S+ index=\d+ occurrences=(\d+)', out)]
        names = []
        for o, _ in oracles:
            if o not in names:
                names.append(o)
        tot = sum(c for _, c in oracles)
        cl = re.findall(r'\((\d+) classes\)', out)
        ncl = cl[-1] if cl else str(len(oracles))
        caught = 'MUTCHECK: exit=1' in out
        desc = '%s (%s classes, %d occurrences%s)' % (', '.join(names[:3]), ncl, tot, '' if n in notes else ' at first run')
        if n in notes:
            nt = notes[n]
            if caught:
                desc = 'missed at first run (%s); after adding %s: %s' % (nt['missed'], nt['after'], desc)
            else:
                desc = 'NOT caught by the quick tier (%s); %s' % (nt['missed'], nt['after'])
        subprocess.check_call(['tools/seedarchive.sh', pid, k, 'yes' if caught else 'no', desc])
