#!/usr/bin/env python3
"""Regenerates /verif/MANIFEST.json from the monitors that exist (harness/src/bin/cNN.rs)."""
import json, os, subprocess
here = os.path.dirname(os.path.dirname(os.path.abspath(__file__)))
props = [json.loads(l) for l in open(os.path.join(here, 'properties.jsonl'))]
INFO = json.load(open(os.path.join(here, 'tools', 'manifest_info.json')))
hooks_commits = subprocess.run(['git', '-C', '/repo', 'log', '--format=%h %s', '--grep=^verif hook'], capture_output=True, text=True).stdout.strip().splitlines()
checks, na = [], []
for p in props:
    pid = p['id']
    info = INFO.get(pid, {})
    if os.path.exists(os.path.join(here, 'harness', 'src', 'bin', pid.lower() + '.rs')) and pid in INFO.get('_claimed', []):
        checks.append({
            'property_id': pid,
            'quick_cmd': './check %s quick' % pid,
            'thorough_cmd': './check %s thorough' % pid,
            'evidence_file': 'evidence/%s.json' % pid,
            'replay_cmd_template': './check %s --replay {path}' % pid,
            'engine': 'scverif',
            'level_claimed': {
                'category': 'exploration',
                'text': info.get('text', 'runtime monitoring: the real code is run on seeded generated and small-scope enumerated workloads while an independent oracle observes every execution; the claim is "held on the K executions reported in the evidence", not a proof'),
                'design_ref': 'DESIGN.md §5 ' + pid,
            },
            'level_note': info.get('note', 'trusted: the harness oracles (reference implementations in harness/src), rustc, f64 arithmetic of the host'),
            'technique': info.get('technique', 'runtime monitoring with executable oracle over generated workloads'),
        })
    else:
        na.append({'property_id': pid, 'reason': info.get('na_reason', 'monitor not built yet in this round (planned in DESIGN.md §5); not claimed until it runs clean on the unchanged tree')})
m = {
    'version': 1,
    'setup_cmd': 'cd harness && CARGO_NET_OFFLINE=true cargo build --release --offline --bins && CARGO_NET_OFFLINE=true cargo build --profile plain --offline --bins',
    'hooks': {
        'guard': "cargo feature 'verif' of the smartcore crate (off by default)",
        'enable': "the harness crate depends on smartcore with features = [serde, ndarray-bindings, nalgebra-bindings, verif]; ./check rebuilds it from /repo's working tree",
        'baseline_off_cmd': 'cd /repo && cargo test --workspace --no-fail-fast --offline',
        'source_commits': [l.split()[0] for l in hooks_commits],
        'add_only': True,
    },
    'engines': [{'name': 'scverif', 'path': 'harness', 'serves_properties': [c['property_id'] for c in checks],
                 'kind_free_text': 'Rust crate: one monitor binary per property (generators + independent oracles + event-log checkers) on a common runner (16 workers, panic classification, watchdog, evidence, replay, known-findings matching); built with overflow-checks and debug-assertions on; Miri shard for C19/C20 in the thorough tier'}],
    'checks': checks,
    'not_applicable': na,
    'notes': 'exit 0 = held on everything explored; exit 1 + VIOLATION lines = unlisted violation; exit 2 + CHECK-BROKEN = the check could not run or observed too little (never a VIOLATION). VERIF_SEED selects the workload stream.',
}
json.dump(m, open(os.path.join(here, 'MANIFEST.json'), 'w'), indent=1)
print('claimed:', [c['property_id'] for c in checks])
print('not_applicable:', [n['property_id'] for n in na])
