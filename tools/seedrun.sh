#!/bin/bash
# tools/seedrun.sh <ID> <k> — confirm seeded change /tmp/seeded-<ID>-<k> and run the property's check against it
id=$1; k=$2; sd=/tmp/seeded-$id-$k
echo "=== $id-$k: $(python3 -c "import json;print(json.load(open('$sd/meta.json')).get('summary','')[:300])" 2>/dev/null)"
/verif/tools/seedverify.sh $sd 2>&1 | grep SEEDVERIFY
MUT_LINES=6 /verif/tools/mutcheck.sh $id $sd/patch.diff quick 2>&1 | grep -v conda | cut -c1-260 | tail -9
