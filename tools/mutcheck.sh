#!/bin/bash
# tools/mutcheck.sh <ID> <patch.diff> [tier] — applies a patch to a scratch copy of /repo (never to /repo itself),
# builds the monitor of property <ID> against that copy and runs it. Prints the monitor's summary and
# exit code. Everything lives under a private temp dir which is removed afterwards.
# env: MUT_KEEP=1 keeps the scratch dir; VERIF_SEED / VERIF_SCALE are passed through.
set -u
id="${1:?usage: mutcheck.sh <ID> <patch> [quick|thorough]}"
patch="$(readlink -f "${2:?patch file}")"
tier="${3:-quick}"
here="$(cd "$(dirname "$0")/.." && pwd)"
bin="$(echo "$id" | tr 'A-Z' 'a-z')"
work="$(mktemp -d /tmp/mut-XXXXXX)"
trap '[ -n "${MUT_KEEP:-}" ] || rm -rf "$work"' EXIT
mkdir -p "$work/repo" "$work/verif/harness"
# working tree of /repo (tracked files + Cargo.lock), without build output
(cd /repo && git ls-files -z | xargs -0 cp --parents -t "$work/repo") || exit 2
cp /repo/Cargo.lock "$work/repo/" 2>/dev/null
if ! (cd "$work/repo" && git init -q . && git apply --whitespace=nowarn "$patch"); then
  echo "MUTCHECK: patch does not apply"; exit 3
fi
cp -r "$here/harness/src" "$here/harness/Cargo.lock" "$here/harness/.cargo" "$work/verif/harness/"
sed "s#path = \"/repo\"#path = \"$work/repo\"#" "$here/harness/Cargo.toml" > "$work/verif/harness/Cargo.toml"
cp "$here/known_findings.json" "$work/verif/"
# reuse compiled registry dependencies
if [ -d "$here/harness/target/release" ]; then
  mkdir -p "$work/verif/harness/target"
  cp -r "$here/harness/target/release" "$work/verif/harness/target/" 2>/dev/null
  rm -f "$work/verif/harness/target/release/"c[0-9]* 2>/dev/null
fi
cd "$work/verif/harness"
if ! CARGO_NET_OFFLINE=true cargo build --release --offline --bin "$bin" >"$work/build.log" 2>&1; then
  echo "MUTCHECK: build failed"; grep -E '^error' -A8 "$work/build.log" | head -40; exit 4
fi
VERIF_DIR="$work/verif" "./target/release/$bin" "$tier" > "$work/out.log" 2>&1
rc=$?
# second build profile (no debug assertions / overflow checks), as ./check does, when the first one stayed silent
if [ $rc -eq 0 ] && [ -z "${MUT_NO_PLAIN:-}" ]; then
  if [ -d "$here/harness/target/plain" ]; then
    cp -r "$here/harness/target/plain" "$work/verif/harness/target/" 2>/dev/null
    rm -f "$work/verif/harness/target/plain/"c[0-9]* 2>/dev/null
  fi
  if CARGO_NET_OFFLINE=true cargo build --profile plain --offline --bin "$bin" >"$work/build2.log" 2>&1; then
    echo "--- plain profile" >> "$work/out.log"
    VERIF_PROFILE_TAG=plain VERIF_DIR="$work/verif" "./target/plain/$bin" "$tier" >> "$work/out.log" 2>&1
    rc=$?
  else
    echo "MUTCHECK: plain-profile build failed"; grep -E '^error' -A8 "$work/build2.log" | head -20
  fi
fi
grep -c '^VIOLATION' "$work/out.log" | sed 's/^/MUTCHECK: violation lines: /'
grep -A2 '^VIOLATION' "$work/out.log" | head -${MUT_LINES:-12} | cut -c1-400
tail -1 "$work/out.log"
echo "MUTCHECK: exit=$rc"
exit $rc
