#!/bin/bash
# tools/seedround.sh <k> [<k> ...] — confirm (sequentially) and check (4 in parallel) the seeded changes
# /tmp/seeded-<ID>-<k> of one round. Logs: /tmp/round-verify.log, /tmp/round-mut.log, /tmp/round-mut-<ID>-<k>.log
cd "$(dirname "$0")/.."
dirs=""
for k in "$@"; do dirs="$dirs $(ls -d /tmp/seeded-C??-$k 2>/dev/null)"; done
: > /tmp/round-verify.log; : > /tmp/round-mut.log
(for d in $dirs; do n=$(basename $d); echo "== $n $(tools/seedverify.sh $d 2>&1 | grep -E 'SEEDVERIFY (CONFIRMED|NOT-CONFIRMED)|suite-with-patch: FAIL|demo-on-unchanged: FAIL|demo-with-patch: PASS|patch-applies: NO' | tr '\n' ' ')"; done >> /tmp/round-verify.log 2>&1) &
echo $dirs | tr ' ' '\n' | grep . | xargs -P 4 -I{} bash -c 'd={}; n=$(basename $d); n=${n#seeded-}; id=${n%%-*}; out=$(MUT_LINES=40 tools/mutcheck.sh $id $d/patch.diff quick 2>&1); echo "$out" > /tmp/round-mut-$n.log; rc=$(echo "$out" | grep -o "MUTCHECK: exit=[0-9]*" | grep -o "[0-9]*$"); echo "$n exit=${rc:-?} $(echo "$out" | grep -o "([0-9]* classes)" | tail -1) $(echo "$out" | grep -m1 "build failed\|does not apply")"' >> /tmp/round-mut.log 2>&1
wait
echo "--- mutcheck"; sort /tmp/round-mut.log; echo "--- seedverify"; cat /tmp/round-verify.log
